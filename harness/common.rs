//! Helpers shared by all harness modules (spliced at the crate root as `verif_common`,
//! only under cfg(kani), only in the scratch copy of the repository).
#![allow(dead_code)]

/// Stub for `alloc::fmt::format`: only used by hoot to build the `String` payload of
/// error variants. The variant is still checked by the harnesses, the text is not.
pub(crate) fn noop_format(_args: core::fmt::Arguments<'_>) -> String {
    String::new()
}

/// Stub for `core::slice::memchr::memchr`: plain index loop, identical result.
pub(crate) fn lean_memchr(x: u8, text: &[u8]) -> Option<usize> {
    let mut i = 0;
    while i < text.len() {
        if text[i] == x {
            return Some(i);
        }
        i += 1;
    }
    None
}

/// Draw a symbolic value in `0..=max`.
pub(crate) fn any_le(max: usize) -> usize {
    let v: usize = kani::any();
    kani::assume(v <= max);
    v
}

/// Draw a symbolic index into a menu of `n` entries.
pub(crate) fn any_idx(n: usize) -> usize {
    let v: usize = kani::any();
    kani::assume(v < n);
    v
}
