#!/usr/bin/env python3
"""Generates the C06 menu-cell harnesses (appended to body_h.rs between the markers)."""
import os, re
CL = [("absent", None), ("0", "0"), ("7", "7"), ("max", "18446744073709551615"),
      ("overflow", "18446744073709551616"), ("x", "x"), ("neg", "-1"), ("space7", " 7")]
TE = [("absent", None), ("chunked", "chunked"), ("mixedcase", "Chunked"), ("list", "gzip, chunked"),
      ("listspace", "gzip,chunked "), ("gzip", "gzip"), ("chunkedx", "chunkedx")]
QUICK = {("absent", "absent"), ("7", "absent"), ("0", "absent"), ("absent", "chunked"), ("7", "chunked"),
         ("x", "absent"), ("absent", "list"), ("7", "gzip"), ("max", "absent"), ("overflow", "absent"),
         ("absent", "mixedcase"), ("neg", "chunked")}
out = []
first = True
for cn, cv in CL:
    for tn, tv in TE:
        name = "c06_cell_cl_%s_te_%s" % (cn, tn)
        tier = "quick"
        if first:
            out.append('''//@ props: C06
//@ tier: quick
//@ unwind: 5
//@ unwindset: memchr=22 memrchr=22 memcmp=22 from_ascii_bytes_radix=22 from_str_radix=22 compare_lowercase_ascii=9 trim=16 next_match=16 c06_case=4 c06_parse_u64=22
//@ timeout: 900
//@ encodes: BodyReader::for_response, BodyReader::header_defined, util::compare_lowercase_ascii, str::split/trim/parse::<u64>
//@ vars: symbolic: response version 1.0/1.1, request method (9 standard), status 100..=999. Concrete per harness (one harness per menu cell): Content-Length in {absent, 0, 7, 18446744073709551615, 18446744073709551616, x, -1, " 7"} x Transfer-Encoding in {absent, chunked, Chunked, "gzip, chunked", "gzip,chunked ", gzip, chunkedx}
//@ bounds: the 8 x 7 header menu (all 56 cells in both tiers); full status / method / version ranges in every cell
//@ outside: header strings outside the menu; several Content-Length / Transfer-Encoding fields (the lookup returns the first)
//@ clause: no body for HEAD, 2xx to CONNECT, 1xx, 204, 304; else chunked iff HTTP/1.1 and a listed transfer coding is chunked (over Content-Length); else exactly Content-Length; else close-delimited, except 3xx (not 304) without framing header: no body; non-numeric Content-Length is an error
''')
            first = False
        else:
            extra = "//@ props: C06 C08\n" if (tn == "absent" and cn in ("7", "0", "max")) else ""
            out.append("//@ like: c06_cell_cl_absent_te_absent\n//@ tier: %s\n%s" % (tier, extra))
        rcv = "None" if cv is None else 'Some("%s")' % cv
        rtv = "None" if tv is None else 'Some("%s")' % tv
        out.append("#[kani::proof]\nfn %s() {\n    c06_case(%s, %s);\n}\n\n" % (name, rcv, rtv))
p = os.path.join(os.path.dirname(os.path.abspath(__file__)), "body_h.rs")
s = open(p).read()
B, E = "// ---- BEGIN generated C06 cells (harness/gen_c06.py)\n", "// ---- END generated C06 cells\n"
if B in s:
    s = s[:s.index(B)] + s[s.index(E) + len(E):]
s = s.rstrip("\n") + "\n\n" + B + "".join(out) + E
open(p, "w").write(s)
print("generated", len(CL) * len(TE), "cells")
