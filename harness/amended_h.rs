//! Harnesses for src/client/amended.rs (child of `client::amended`).
#![allow(dead_code, unused_imports)]
use super::*;
use crate::body::verif_h as bh;
use crate::util::verif_h as uh;
use crate::verif_common::*;
use crate::verif_tier::THOROUGH;
use http::header::{AUTHORIZATION, CONNECTION, CONTENT_LENGTH, COOKIE, HOST, TRANSFER_ENCODING};
use crate::verif_common::X_KEEP;

/// `AmendedRequest::new(request)` without `core::array::from_fn` (see util_h::mk_header_vec).
pub(crate) fn mk_amended(request: Request<()>) -> AmendedRequest<()> {
    let (parts, body) = request.into_parts();
    AmendedRequest {
        request: Request::from_parts(parts, Some(body)),
        uri: None,
        headers: uh::mk_header_vec(),
        unset: uh::mk_name_vec(),
    }
}

pub(crate) use crate::verif_common::method_at;
pub(crate) fn method_needs_body(i: usize) -> bool {
    i == 2 || i == 3 || i == 8
}
pub(crate) fn method_in_http10(i: usize) -> bool {
    i <= 2
}
pub(crate) fn version_at(i: usize) -> Version {
    match i {
        0 => Version::HTTP_09,
        1 => Version::HTTP_10,
        2 => Version::HTTP_11,
        3 => Version::HTTP_2,
        _ => Version::HTTP_3,
    }
}

pub(crate) fn mk_request(mi: usize, vi: usize) -> Request<()> {
    let mut r = Request::new(());
    *r.method_mut() = method_at(mi);
    *r.version_mut() = version_at(vi);
    r
}

// =====================================================================================
// C17 — invalid requests rejected
// =====================================================================================

//@ props: C17
//@ tier: quick
//@ unwind: 4
//@ unwindset: memcmp=12
//@ timeout: 900
//@ encodes: AmendedRequest::analyze, MethodExt::verify_version/is_http10/is_http11/need_request_body, BodyWriter::has_body
//@ vars: version in {0.9,1.0,1.1,2,3}; method in the 9 standard methods; despite-flag: bool; wanted mode in {none (without-body constructor), chunked (with-body constructor)}; no headers
//@ bounds: the full 5 x 9 x 2 x 2 table
//@ outside: extension methods
//@ clause: Err exactly when version not in {1.0,1.1}, or method undefined for the version, or (no despite-flag and body-needed != body-present); Ok otherwise
#[kani::proof]
fn c17_analyze_version_method_table() {
    let mi = any_idx(9);
    let vi = any_idx(5);
    let skip: bool = kani::any();
    let with_body: bool = kani::any();
    let ar = mk_amended(mk_request(mi, vi));
    let wanted = if with_body { BodyWriter::new_chunked() } else { BodyWriter::new_none() };
    let r = ar.analyze(wanted, skip);
    let bad_version = !(vi == 1 || vi == 2);
    let bad_method = !(method_in_http10(mi) || vi == 2);
    let bad_body = !skip && (method_needs_body(mi) != with_body);
    match r {
        Err(e) => {
            assert!(bad_version || bad_method || bad_body, "C17/valid-request-accepted");
            kani::cover!(bad_version, "rejects-unsupported-version");
            kani::cover!(!bad_version && bad_method, "rejects-method-version-mismatch");
            kani::cover!(!bad_version && !bad_method && bad_body, "rejects-body-mismatch");
            core::mem::forget(e);
        }
        Ok(info) => {
            assert!(!bad_version, "C17/version-other-than-1x-rejected");
            assert!(!bad_method, "C17/method-not-defined-for-version-rejected");
            assert!(!bad_body, "C17/body-vs-method-rejected");
            assert!(info.body_mode.has_body() == with_body, "C17/body-mode-as-wanted");
            assert!(!info.req_host_header && !info.req_body_header, "C17/no-header-no-flag");
            kani::cover!(skip && !method_needs_body(mi) && with_body, "despite-method-accepted");
            kani::cover!(vi == 1 && mi == 2, "http10-post");
        }
    }
    core::mem::forget(ar);
}

/// Content-Length menu: (bytes, is_valid_number)
pub(crate) fn cl_value(i: usize) -> (HeaderValue, bool) {
    match i {
        0 => (HeaderValue::from_static("5"), true),
        1 => (HeaderValue::from_static("0"), true),
        2 => (HeaderValue::from_static("-1"), false),
        3 => (HeaderValue::from_static("x"), false),
        4 => (HeaderValue::from_static(""), false),
        _ => (HeaderValue::from_bytes(&[0xFF]).unwrap(), false),
    }
}

fn c17_menu_case(oh: usize, ah: bool, ocl: usize, acl: bool) {
    c17_menu_case_te(oh, ah, ocl, acl, 0)
}

/// te: 0 absent, 1 original "chunked", 2 original "Chunked" (mixed case), 3 original "gzip"
fn c17_menu_case_te(oh: usize, ah: bool, ocl: usize, acl: bool, te: usize) {
    c17_menu_case_full(oh, ah, ocl, acl, te, false)
}

/// bad_added_cl: the caller-added Content-Length is "x" instead of "7"
fn c17_menu_case_full(oh: usize, ah: bool, ocl: usize, acl: bool, te: usize, bad_added_cl: bool) {
    let post: bool = kani::any();
    let skip: bool = kani::any();
    let with_body: bool = kani::any();
    let mut req = mk_request(if post { 2 } else { 0 }, 2);
    if oh == 1 {
        req.headers_mut().append(HOST, HeaderValue::from_static("a.test"));
    } else if oh == 2 {
        req.headers_mut().append(HOST, HeaderValue::from_bytes(&[0xE9]).unwrap());
    }
    let mut cl_ok = true;
    let mut cl_val: u64 = 0;
    if ocl > 0 {
        let (v, ok) = cl_value(ocl - 1);
        req.headers_mut().append(CONTENT_LENGTH, v);
        cl_ok = ok;
        cl_val = if ocl == 1 { 5 } else { 0 };
    }
    if te == 1 {
        req.headers_mut().append(TRANSFER_ENCODING, HeaderValue::from_static("chunked"));
    } else if te == 2 {
        req.headers_mut().append(TRANSFER_ENCODING, HeaderValue::from_static("Chunked"));
    } else if te == 3 {
        req.headers_mut().append(TRANSFER_ENCODING, HeaderValue::from_static("gzip"));
    }
    let te_chunked = te == 1 || te == 2;
    let mut ar = mk_amended(req);
    if ah {
        ar.set_header(HOST, HeaderValue::from_static("b.test")).unwrap();
    }
    if acl {
        ar.set_header(CONTENT_LENGTH, HeaderValue::from_static(if bad_added_cl { "x" } else { "7" })).unwrap();
        if ocl == 0 {
            cl_val = 7;
        }
    }
    let wanted = if with_body { BodyWriter::new_chunked() } else { BodyWriter::new_none() };
    let r = ar.analyze(wanted, skip);

    let n_host = (oh > 0) as usize + ah as usize;
    let n_cl = (ocl > 0) as usize + acl as usize;
    // with a single Host it is non-textual only in original-menu entry 2
    let host_nontext = n_host == 1 && oh == 2;
    let cl_bad = n_cl == 1 && ((ocl > 0 && !cl_ok) || (acl && bad_added_cl));
    let has_body = n_cl == 1 || with_body || te_chunked;
    let body_bad = !skip && (post != has_body);
    let expect_err = n_host > 1 || n_cl > 1 || host_nontext || cl_bad || body_bad;
    match r {
        Err(e) => {
            assert!(expect_err, "C17/valid-request-accepted");
            if n_host > 1 {
                assert!(matches!(e, Error::TooManyHostHeaders), "C17/too-many-host-kind");
            }
            core::mem::forget(e);
        }
        Ok(info) => {
            assert!(n_host <= 1, "C17/more-than-one-host-rejected");
            assert!(n_cl <= 1, "C17/more-than-one-content-length-rejected");
            assert!(!host_nontext, "C17/non-textual-host-rejected");
            assert!(!cl_bad, "C17/non-numeric-content-length-rejected");
            assert!(!body_bad, "C17/body-vs-method-rejected");
            assert!(info.req_host_header == (n_host == 1), "C02/host-flag-iff-host-present");
            assert!(info.req_body_header == (n_cl == 1 || te_chunked), "C02/framing-flag-iff-framing-header-present");
            if te_chunked {
                assert!(info.body_mode.is_chunked(), "C02/chunked-header-selects-chunked-mode");
            } else if n_cl == 1 {
                assert!(bh::writer_left(&info.body_mode) == Some(cl_val), "C02/sized-mode-carries-callers-length");
            } else {
                assert!(info.body_mode.is_chunked() == with_body, "C02/default-mode-as-wanted");
            }
            kani::cover!(true, "accepted-reachable");
        }
    }
    kani::cover!(expect_err, "rejection-class-reachable");
    core::mem::forget(ar);
}

//@ props: C17 C02
//@ tier: quick
//@ unwind: 5
//@ unwindset: memcmp=9 from_static=8 compare_lowercase_ascii=9 eq_ignore_ascii_case=18 3all5check=18 eq_ignore_ascii_case=18 extend_with=10 FnvHasher=10 to_str=10
//@ timeout: 900|3000
//@ mem: 16|40
//@ encodes: AmendedRequest::analyze (Host / Content-Length cardinality, text / numeric checks, framing selection, body-vs-method), AmendedRequest::headers, headers_get_all, set_header, HeaderMap::append/iter
//@ vars: symbolic: method in {GET, POST}, despite-flag, wanted mode none/chunked. Concrete per harness (one harness per menu cell): original Host in {absent, text, non-text} x caller-added Host in {absent, text}; original Content-Length in {absent, 5, 0, -1, x, empty, 0xFF} x caller-added Content-Length in {absent, 7}
//@ bounds: the stated menu; version fixed to 1.1 (versions are covered by c17_analyze_version_method_table)
//@ outside: header values outside the menu (numbers with whitespace or sign, values > u64::MAX), more than two headers of a kind
//@ clause: Err exactly for: >1 Host, >1 Content-Length, non-textual Host, non-numeric Content-Length, body on a body-less method (unless despite), body-taking method without body; otherwise Ok with the host/framing flags and the sized mode carrying the caller's number
#[kani::proof]
fn c17_cell_no_headers() {
    c17_menu_case(0, false, 0, false);
}

//@ like: c17_cell_no_headers
//@ tier: thorough
#[kani::proof]
fn c17_cell_host_orig() {
    c17_menu_case(1, false, 0, false);
}

//@ like: c17_cell_no_headers
//@ tier: off
#[kani::proof]
fn c17_cell_host_added() {
    c17_menu_case(0, true, 0, false);
}

//@ like: c17_cell_no_headers
//@ tier: off
#[kani::proof]
fn c17_cell_host_orig_plus_added() {
    c17_menu_case(1, true, 0, false);
}

//@ like: c17_cell_no_headers
//@ tier: off
#[kani::proof]
fn c17_cell_host_nontext() {
    c17_menu_case(2, false, 0, false);
}

//@ like: c17_cell_no_headers
//@ tier: off
#[kani::proof]
fn c17_cell_host_nontext_plus_added() {
    c17_menu_case(2, true, 0, false);
}

//@ like: c17_cell_no_headers
//@ tier: off
#[kani::proof]
fn c17_cell_cl_5() {
    c17_menu_case(1, false, 1, false);
}

//@ like: c17_cell_no_headers
//@ tier: off
#[kani::proof]
fn c17_cell_cl_0() {
    c17_menu_case(1, false, 2, false);
}

//@ like: c17_cell_no_headers
//@ tier: off
#[kani::proof]
fn c17_cell_cl_neg() {
    c17_menu_case(1, false, 3, false);
}

//@ like: c17_cell_no_headers
//@ tier: off
#[kani::proof]
fn c17_cell_cl_x() {
    c17_menu_case(1, false, 4, false);
}

//@ like: c17_cell_no_headers
//@ tier: off
#[kani::proof]
fn c17_cell_cl_empty() {
    c17_menu_case(1, false, 5, false);
}

//@ like: c17_cell_no_headers
//@ tier: off
#[kani::proof]
fn c17_cell_cl_nonutf8() {
    c17_menu_case(1, false, 6, false);
}

//@ like: c17_cell_no_headers
//@ tier: off
#[kani::proof]
fn c17_cell_cl_added() {
    c17_menu_case(1, false, 0, true);
}

//@ like: c17_cell_no_headers
//@ tier: off
#[kani::proof]
fn c17_cell_cl_5_plus_added() {
    c17_menu_case(1, false, 1, true);
}

//@ like: c17_cell_no_headers
//@ tier: off
#[kani::proof]
fn c17_cell_cl_x_plus_added() {
    c17_menu_case(0, true, 4, true);
}


// =====================================================================================
// C16 / C13 / C02-L1 — effective header sequence
// =====================================================================================

/// Effective headers of `ar` as (name-code, first value byte) pairs, up to 6.
/// name codes: 1 cookie, 2 authorization, 3 content-length, 4 host, 5 x-keep, 6 transfer-encoding, 9 other
fn effective(ar: &AmendedRequest<()>) -> ([(u8, u8); 6], usize) {
    let mut out = [(0u8, 0u8); 6];
    let mut n = 0;
    for (k, v) in ar.headers() {
        let code = if *k == COOKIE {
            1
        } else if *k == AUTHORIZATION {
            2
        } else if *k == CONTENT_LENGTH {
            3
        } else if *k == HOST {
            4
        } else if *k == X_KEEP {
            5
        } else if *k == TRANSFER_ENCODING {
            6
        } else {
            9
        };
        if n < 6 {
            out[n] = (code, v.as_bytes().first().copied().unwrap_or(0));
        }
        n += 1;
    }
    (out, n)
}

/// A redirected flow's request as `as_new_flow` leaves it, over at most ONE original header
/// (HeaderMap insertions and iteration are expensive under CBMC; two entries exhaust 24 GB):
/// which = 0 none, 1 cookie, 2 authorization, 3 content-length, 4 x-keep.
fn mk_redirected(which: usize, keep_auth: bool, fresh: bool) -> AmendedRequest<()> {
    let mut req = mk_request(0, 2);
    match which {
        1 => { req.headers_mut().append(COOKIE, HeaderValue::from_static("o")); }
        2 => { req.headers_mut().append(AUTHORIZATION, HeaderValue::from_static("p")); }
        3 => { req.headers_mut().append(CONTENT_LENGTH, HeaderValue::from_static("3")); }
        4 => { req.headers_mut().append(X_KEEP, HeaderValue::from_static("k")); }
        _ => {}
    }
    let mut ar = mk_amended(req);
    if !fresh {
        if !keep_auth {
            ar.unset_header(AUTHORIZATION).unwrap();
        }
        ar.unset_header(COOKIE).unwrap();
        ar.unset_header(CONTENT_LENGTH).unwrap();
    }
    ar
}

fn c13_case(which: usize, keep_auth: bool) {
    let ar = mk_redirected(which, keep_auth, false);
    let (h, n) = effective(&ar);
    let kept = which == 4 || (which == 2 && keep_auth);
    if kept {
        let code = if which == 4 { (5, b'k') } else { (2, b'p') };
        assert!(n == 1 && h[0] == code, "C13/unrelated-or-policy-kept-header-is-sent");
    } else {
        assert!(n == 0, "C13/inherited-cookie-length-authorization-suppressed");
    }
    assert!(ar.headers_len() == n, "C02/headers-len-equals-effective-count");
    kani::cover!(true, "cell-reached");
    core::mem::forget(ar);
}

//@ props: C13
//@ tier: off
//@ unwind: 7
//@ unwindset: memcmp=8 from_static=8 extend_with=10 FnvHasher=10 effective=8
//@ timeout: 1500
//@ mem: 24
//@ encodes: AmendedRequest::headers (chain + inherited-unset filter), unset_header, headers_len, HeaderMap::append/iter
//@ vars: concrete per harness: the single original header (cookie | authorization | content-length | x-keep) and whether the policy decision kept authorization
//@ bounds: one original header per harness
//@ outside: which targets keep the authorization header (can_redirect_auth_header on real URIs), repeated fields, several originals at once
//@ clause: on a redirected request the inherited Cookie and Content-Length are never effective; the inherited Authorization is effective iff the policy decision kept it; unrelated headers stay
#[kani::proof]
fn c13_inherited_cookie_suppressed() {
    c13_case(1, false);
}

//@ like: c13_inherited_cookie_suppressed
#[kani::proof]
fn c13_inherited_content_length_suppressed() {
    c13_case(3, true);
}

//@ like: c13_inherited_cookie_suppressed
#[kani::proof]
fn c13_inherited_authorization_dropped() {
    c13_case(2, false);
}

//@ like: c13_inherited_cookie_suppressed
#[kani::proof]
fn c13_inherited_authorization_kept_when_policy_allows() {
    c13_case(2, true);
}

//@ like: c13_inherited_cookie_suppressed
#[kani::proof]
fn c13_unrelated_header_kept() {
    c13_case(4, false);
}

//@ props: C16 C02
//@ tier: off
//@ unwind: 7
//@ unwindset: memcmp=8 from_static=8 extend_with=10 FnvHasher=10 effective=8
//@ timeout: 1500
//@ mem: 24
//@ encodes: AmendedRequest::set_header, AmendedRequest::headers, headers_len, unset_header
//@ vars: redirected request (suppression list authorization/cookie/content-length; one inherited cookie in the second harness) plus caller-added cookie, authorization, host in that order; fresh request (original x-keep) plus caller-added content-length, cookie
//@ bounds: up to three additions, at most one original header
//@ outside: more than 3 additions (the iterator is a chain of two slices; nothing depends on the count), other names
//@ clause: every caller-added header is effective, in the order added, ahead of the original ones - also when its name is on the inherited-suppression list; the same-named inherited headers stay suppressed
#[kani::proof]
fn c16_added_headers_survive_suppression() {
    let mut ar = mk_redirected(0, false, false);
    ar.set_header(COOKIE, HeaderValue::from_static("a")).unwrap();
    ar.set_header(AUTHORIZATION, HeaderValue::from_static("b")).unwrap();
    ar.set_header(HOST, HeaderValue::from_static("c")).unwrap();
    let (h, n) = effective(&ar);
    assert!(n >= 1 && h[0] == (1, b'a'), "C16/caller-added-cookie-is-sent");
    assert!(n >= 2 && h[1] == (2, b'b'), "C16/caller-added-authorization-is-sent");
    assert!(n == 3 && h[2] == (4, b'c'), "C16/caller-added-headers-in-order");
    assert!(ar.headers_len() == n, "C02/headers-len-equals-effective-count");
    core::mem::forget(ar);
}

//@ like: c16_added_headers_survive_suppression
#[kani::proof]
fn c16_added_cookie_sent_inherited_cookie_suppressed() {
    let mut ar = mk_redirected(1, false, false);
    ar.set_header(COOKIE, HeaderValue::from_static("a")).unwrap();
    let (h, n) = effective(&ar);
    assert!(n >= 1 && h[0] == (1, b'a'), "C16/caller-added-cookie-is-sent");
    assert!(n == 1, "C13/inherited-cookie-stays-suppressed");
    assert!(ar.headers_len() == n, "C02/headers-len-equals-effective-count");
    core::mem::forget(ar);
}

//@ like: c16_added_headers_survive_suppression
#[kani::proof]
fn c16_added_headers_fresh_flow() {
    let mut ar = mk_redirected(4, false, true);
    ar.set_header(CONTENT_LENGTH, HeaderValue::from_static("3")).unwrap();
    ar.set_header(COOKIE, HeaderValue::from_static("a")).unwrap();
    let (h, n) = effective(&ar);
    assert!(n == 3 && h[0] == (3, b'3') && h[1] == (1, b'a') && h[2] == (5, b'k'), "C16/caller-added-headers-first-in-order");
    assert!(ar.headers_len() == n, "C02/headers-len-equals-effective-count");
    core::mem::forget(ar);
}

//@ props: C16
//@ tier: quick
//@ unwind: 6
//@ unwindset: memcmp=8 from_static=8
//@ timeout: 900
//@ mem: 24
//@ encodes: AmendedRequest::set_header, unset_header, headers (chain + filter), headers_len
//@ vars: redirected request without original headers, suppression list [cookie]; caller adds cookie: a
//@ bounds: one caller-added header whose name is on the inherited-suppression list (the minimal scenario of the property's 'in particular' clause); larger scenarios exhaust 24 GB in http's header iterators
//@ outside: several additions, order among additions, original headers present at the same time
//@ clause: a header added by the caller for the redirect target is effective although the same-named inherited header is suppressed
#[kani::proof]
fn c16_added_cookie_survives_suppression_minimal() {
    let mut ar = mk_amended(mk_request(0, 2));
    ar.unset_header(COOKIE).unwrap();
    ar.set_header(COOKIE, HeaderValue::from_static("a")).unwrap();
    assert!(ar.headers_len() == 1, "C16/caller-added-cookie-is-sent");
    let first_is_cookie = match ar.headers().next() {
        Some((k, _)) => *k == COOKIE,
        None => false,
    };
    assert!(first_is_cookie, "C16/caller-added-cookie-is-sent");
    kani::cover!(true, "reached");
    core::mem::forget(ar);
}

fn c13_min_case(which: usize, keep_auth: bool) {
    let ar = mk_redirected(which, keep_auth, false);
    let kept = which == 4 || (which == 2 && keep_auth);
    assert!(ar.headers_len() == kept as usize, "C13/inherited-cookie-length-authorization-suppressed-unless-kept");
    kani::cover!(true, "cell-reached");
    core::mem::forget(ar);
}

//@ props: C13
//@ tier: quick
//@ unwind: 6
//@ unwindset: memcmp=8 from_static=8 extend_with=10 FnvHasher=10
//@ timeout: 1200
//@ mem: 24
//@ encodes: AmendedRequest::headers (chain + inherited-unset filter), headers_len, unset_header, HeaderMap::append/iter
//@ vars: concrete per harness: the single original header (cookie | authorization | content-length | x-keep) and whether the policy decision kept authorization
//@ bounds: one original header per harness; effective-header COUNT only
//@ outside: which targets keep the authorization header (can_redirect_auth_header on real URIs), several originals at once, the redirect chain itself (each hop rebuilds from the original request)
//@ clause: on a redirected request the inherited Cookie and Content-Length are never effective; the inherited Authorization is effective iff the policy decision kept it; unrelated headers stay
#[kani::proof]
fn c13_min_cookie_suppressed() {
    c13_min_case(1, false);
}

//@ like: c13_min_cookie_suppressed
#[kani::proof]
fn c13_min_content_length_suppressed() {
    c13_min_case(3, true);
}

//@ like: c13_min_cookie_suppressed
#[kani::proof]
fn c13_min_authorization_dropped() {
    c13_min_case(2, false);
}

//@ like: c13_min_cookie_suppressed
#[kani::proof]
fn c13_min_authorization_kept() {
    c13_min_case(2, true);
}

//@ like: c13_min_cookie_suppressed
#[kani::proof]
fn c13_min_unrelated_kept() {
    c13_min_case(4, false);
}

//@ like: c17_cell_no_headers
//@ tier: off
#[kani::proof]
fn c17_cell_te_chunked() {
    c17_menu_case_te(1, false, 0, false, 1);
}

//@ like: c17_cell_no_headers
//@ tier: thorough
#[kani::proof]
fn c17_cell_te_mixedcase() {
    c17_menu_case_te(0, false, 0, false, 2);
}

//@ like: c17_cell_no_headers
//@ tier: off
#[kani::proof]
fn c17_cell_te_gzip() {
    c17_menu_case_te(0, false, 0, false, 3);
}

//@ like: c17_cell_no_headers
//@ tier: off
#[kani::proof]
fn c17_cell_te_chunked_with_bad_added_length() {
    c17_menu_case_full(0, false, 0, true, 1, true);
}
