"""Engine E2: MIR -> SMT-LIB for loop-free integer functions (used for body::calculate_max_input).

On every run the MIR of /repo's current source is dumped with the nightly toolchain, the function
and the constants it refers to are extracted from that dump, and two encodings are generated:

  (i)  BV64 with fresh quotient/remainder + division lemma for constant divisors, decided by
       `cvc5 --solve-bv-as-int=sum` (plain bit-blasting does not finish on 64-bit udiv/urem);
  (ii) mathematical integers with explicit 0 <= x < 2^64 ranges and wrap-around made explicit,
       decided by z3.

Both must answer `unsat` for the negated property; `sat` gives a concrete n that is replayed
natively through the public API (Flow<SendBody>::calculate_max_input); anything else (unknown,
`(error`, disagreement, an MIR construct the translator does not know) is inconclusive.
"""
import os
import re
import shutil
import subprocess
import time

from .common import ENV, VERIF, Inconclusive, log, scratch_dir
from .common import run as sh

M64 = (1 << 64) - 1


class Unsupported(Exception):
    pass


# ------------------------------------------------------------------------------------ MIR parsing

def dump_mir(repo_copy):
    out = os.path.join(scratch_dir(), "mir.txt")
    env = dict(ENV)
    env["CARGO_TARGET_DIR"] = os.path.join(scratch_dir(), "target-mir")
    lib = os.path.join(repo_copy, "src/lib.rs")
    os.utime(lib, None)
    cmd = ["cargo", "+nightly", "rustc", "--offline", "--lib", "--manifest-path",
           os.path.join(repo_copy, "Cargo.toml"), "--", "-Zunpretty=mir", "-C", "debug-assertions=off",
           "-C", "overflow-checks=on"]
    with open(out, "wb") as fh:
        p = subprocess.run(cmd, cwd=repo_copy, env=env, stdout=fh, stderr=subprocess.PIPE, timeout=900)
    if p.returncode != 0 or os.path.getsize(out) == 0:
        raise Inconclusive("MIR dump failed: %s" % p.stderr.decode("utf-8", "replace")[-1500:])
    return open(out).read()


def extract_item(mir, header_rx):
    m = re.search(header_rx, mir, re.M)
    if not m:
        return None
    start = m.start()
    end = mir.index("\n}\n", start) + 3
    return mir[start:end]


def parse_body(text):
    """-> (params, blocks) with blocks = {name: (stmts, terminator)}"""
    head = text.split("\n", 1)[0]
    params = re.findall(r"(_\d+): (\w+)", head.split("->")[0])
    blocks = {}
    for m in re.finditer(r"^    (bb\d+): \{\n(.*?)^    \}", text, re.M | re.S):
        lines = [l.strip() for l in m.group(2).splitlines() if l.strip()]
        blocks[m.group(1)] = (lines[:-1], lines[-1])
    if not blocks:
        raise Unsupported("no basic blocks parsed")
    return params, blocks


# ------------------------------------------------------------------------------------ term building
# A value is a dict: {"bv": smt term, "int": smt term, "c": python int or None}
# tuples (x, flag) are python tuples of two values.

class Enc:
    """Collects fresh variables and side constraints for one instantiation of the function."""

    def __init__(self, suffix, consts):
        self.suffix = suffix
        self.consts = consts
        self.decls_bv = []
        self.decls_int = []
        self.side_bv = []
        self.side_int = []
        self.n = 0

    def fresh(self, base):
        self.n += 1
        return "%s_%s_%d" % (base, self.suffix, self.n)


def bvlit(v):
    return "(_ bv%d 64)" % (v & M64)


def mk_const(v):
    return {"bv": bvlit(v), "int": str(v), "c": v}


def mk_bool(bv, it, c=None):
    return {"bv": bv, "int": it, "c": c, "bool": True}


def operand(tok, env, enc):
    tok = tok.strip()
    m = re.match(r"^(?:copy|move) (_\d+)$", tok)
    if m:
        return env[m.group(1)]
    m = re.match(r"^(?:copy|move) \((_\d+)\.(\d): \w+\)$", tok)
    if m:
        return env[m.group(1)][int(m.group(2))]
    m = re.match(r"^const (\d+)_(usize|u64|u32)$", tok)
    if m:
        return mk_const(int(m.group(1)))
    m = re.match(r"^const (true|false)$", tok)
    if m:
        b = m.group(1) == "true"
        return mk_bool("true" if b else "false", "true" if b else "false", b)
    m = re.match(r"^const ([A-Za-z_][\w:]*)$", tok)
    if m:
        name = m.group(1).split("::")[-1]
        if name not in enc.consts:
            raise Unsupported("unknown constant %s" % tok)
        return mk_const(enc.consts[name])
    raise Unsupported("operand `%s`" % tok)


CMP = {"Eq": ("=", "="), "Lt": ("bvult", "<"), "Le": ("bvule", "<="), "Gt": ("bvugt", ">"), "Ge": ("bvuge", ">=")}


def binop(op, a, b, enc):
    if op in CMP:
        f_bv, f_int = CMP[op]
        return mk_bool("(%s %s %s)" % (f_bv, a["bv"], b["bv"]), "(%s %s %s)" % (f_int, a["int"], b["int"]))
    if op == "Ne":
        return mk_bool("(not (= %s %s))" % (a["bv"], b["bv"]), "(not (= %s %s))" % (a["int"], b["int"]))
    if op in ("Div", "Rem"):
        if b["c"] is None or b["c"] == 0:
            raise Unsupported("division by a non-constant or zero divisor")
        d = b["c"]
        q, r = enc.fresh("q"), enc.fresh("r")
        enc.decls_bv += ["(declare-const %s (_ BitVec 64))" % q, "(declare-const %s (_ BitVec 64))" % r]
        # division lemma: a = q*d + r, r < d, no wrap-around anywhere => q = a div d, r = a mod d
        enc.side_bv += [
            "(bvule %s %s)" % (q, bvlit(M64 // d)),
            "(bvult %s %s)" % (r, bvlit(d)),
            "(bvule %s (bvsub %s (bvmul %s %s)))" % (r, bvlit(M64), q, bvlit(d)),
            "(= %s (bvadd (bvmul %s %s) %s))" % (a["bv"], q, bvlit(d), r),
        ]
        if op == "Div":
            return {"bv": q, "int": "(div %s %d)" % (a["int"], d), "c": None}
        return {"bv": r, "int": "(mod %s %d)" % (a["int"], d), "c": None}
    if op in ("AddWithOverflow", "SubWithOverflow", "MulWithOverflow", "Add", "Sub", "Mul"):
        base = op.replace("WithOverflow", "")
        f_bv = {"Add": "bvadd", "Sub": "bvsub", "Mul": "bvmul"}[base]
        f_int = {"Add": "+", "Sub": "-", "Mul": "*"}[base]
        raw_int = "(%s %s %s)" % (f_int, a["int"], b["int"])
        val = {"bv": "(%s %s %s)" % (f_bv, a["bv"], b["bv"]),
               "int": "(mod %s 18446744073709551616)" % raw_int, "c": None}
        if not op.endswith("WithOverflow"):
            return val
        if base == "Add":
            ovf_bv = "(bvult (bvadd %s %s) %s)" % (a["bv"], b["bv"], a["bv"])
        elif base == "Sub":
            ovf_bv = "(bvult %s %s)" % (a["bv"], b["bv"])
        else:
            if b["c"] is not None and b["c"] != 0:
                ovf_bv = "(bvugt %s %s)" % (a["bv"], bvlit(M64 // b["c"]))
            elif a["c"] is not None and a["c"] != 0:
                ovf_bv = "(bvugt %s %s)" % (b["bv"], bvlit(M64 // a["c"]))
            else:
                raise Unsupported("symbolic-by-symbolic multiplication")
        ovf_int = "(or (< %s 0) (> %s 18446744073709551615))" % (raw_int, raw_int)
        return (val, mk_bool(ovf_bv, ovf_int))
    raise Unsupported("binary operator %s" % op)


def eval_rvalue(rv, env, enc):
    rv = rv.strip()
    m = re.match(r"^(\w+)\((.*)\)$", rv)
    if m and m.group(1) in ("Eq", "Ne", "Lt", "Le", "Gt", "Ge", "Add", "Sub", "Mul", "Div", "Rem",
                            "AddWithOverflow", "SubWithOverflow", "MulWithOverflow"):
        args = split_args(m.group(2))
        if len(args) != 2:
            raise Unsupported("arity of %s" % rv)
        return binop(m.group(1), operand(args[0], env, enc), operand(args[1], env, enc), enc)
    if m and m.group(1) == "Not":
        a = operand(m.group(2), env, enc)
        return mk_bool("(not %s)" % a["bv"], "(not %s)" % a["int"])
    return operand(rv, env, enc)


def split_args(s):
    args, depth, cur = [], 0, ""
    for ch in s:
        if ch == "(":
            depth += 1
        if ch == ")":
            depth -= 1
        if ch == "," and depth == 0:
            args.append(cur)
            cur = ""
        else:
            cur += ch
    args.append(cur)
    return [a.strip() for a in args]


def sym_exec(blocks, env0, enc):
    """Enumerate all paths of the (loop-free) CFG. Returns list of (pc_bv, pc_int, asserts, ret)."""
    paths = []

    def go(bb, env, pc, asserts, depth):
        if depth > 64:
            raise Unsupported("CFG too deep / cyclic")
        stmts, term = blocks[bb]
        env = dict(env)
        for s in stmts:
            if s.startswith("StorageLive") or s.startswith("StorageDead") or s.startswith("nop") \
                    or s.startswith("//") or s.startswith("FakeRead") or s.startswith("debug "):
                continue
            m = re.match(r"^(_\d+) = (.*);$", s)
            if not m:
                raise Unsupported("statement `%s`" % s)
            env[m.group(1)] = eval_rvalue(m.group(2), env, enc)
        if term == "return;":
            paths.append((pc, asserts, env["_0"]))
            return
        m = re.match(r"^goto -> (bb\d+);$", term)
        if m:
            return go(m.group(1), env, pc, asserts, depth + 1)
        m = re.match(r"^switchInt\((.*?)\) -> \[0: (bb\d+), otherwise: (bb\d+)\];$", term)
        if m:
            c = operand(m.group(1), env, enc)
            if not c.get("bool"):
                raise Unsupported("switchInt on a non-boolean")
            go(m.group(2), env, pc + [("(not %s)" % c["bv"], "(not %s)" % c["int"])], asserts, depth + 1)
            go(m.group(3), env, pc + [(c["bv"], c["int"])], asserts, depth + 1)
            return
        m = re.match(r"^assert\((!?)(.*?), \".*\) -> \[success: (bb\d+), unwind[^\]]*\];$", term)
        if m:
            c = operand(m.group(2), env, enc)
            if m.group(1) == "!":
                cond = ("(not %s)" % c["bv"], "(not %s)" % c["int"])
            else:
                cond = (c["bv"], c["int"])
            # the assert must hold under the current path condition; afterwards it is assumed
            return go(m.group(3), env, pc + [cond], asserts + [(list(pc), cond)], depth + 1)
        raise Unsupported("terminator `%s`" % term)

    go("bb0", env0, [], [], 0)
    return paths


def conj(terms, idx):
    ts = [t[idx] for t in terms]
    if not ts:
        return "true"
    if len(ts) == 1:
        return ts[0]
    return "(and %s)" % " ".join(ts)


def concrete_eval_const(mir, name, consts):
    """Evaluate a `const NAME: usize = {...}` MIR body to a Python int."""
    item = extract_item(mir, r"^const %s: usize = \{" % re.escape(name))
    if item is None:
        raise Unsupported("constant %s not found in the MIR dump" % name)
    _, blocks = parse_body(item)
    env = {}
    bb = "bb0"
    for _ in range(32):
        stmts, term = blocks[bb]
        for s in stmts:
            m = re.match(r"^(_\d+) = (\w+)\((.*)\);$", s)
            if m:
                a, b = [cval(x, env, consts, mir) for x in split_args(m.group(3))]
                op = m.group(2)
                base = op.replace("WithOverflow", "")
                raw = {"Add": a + b, "Sub": a - b, "Mul": a * b}.get(base)
                if raw is None:
                    raise Unsupported("const op %s" % op)
                if op.endswith("WithOverflow"):
                    env[m.group(1)] = (raw & M64, not (0 <= raw <= M64))
                else:
                    env[m.group(1)] = raw & M64
                continue
            m = re.match(r"^(_\d+) = (.*);$", s)
            if m:
                env[m.group(1)] = cval(m.group(2), env, consts, mir)
                continue
            raise Unsupported("const statement `%s`" % s)
        if term == "return;":
            return env["_0"]
        m = re.match(r"^assert\(!move \((_\d+)\.1: bool\), .* -> \[success: (bb\d+),", term)
        if m:
            if env[m.group(1)][1]:
                raise Unsupported("constant %s overflows" % name)
            bb = m.group(2)
            continue
        m = re.match(r"^goto -> (bb\d+);$", term)
        if m:
            bb = m.group(1)
            continue
        raise Unsupported("const terminator `%s`" % term)
    raise Unsupported("const evaluation did not terminate")


def cval(tok, env, consts, mir):
    tok = tok.strip()
    m = re.match(r"^const (\d+)_usize$", tok)
    if m:
        return int(m.group(1))
    m = re.match(r"^(?:copy|move) (_\d+)$", tok)
    if m:
        return env[m.group(1)]
    m = re.match(r"^(?:copy|move) \((_\d+)\.(\d): \w+\)$", tok)
    if m:
        return env[m.group(1)][int(m.group(2))]
    m = re.match(r"^const ([A-Za-z_][\w:]*)$", tok)
    if m:
        name = m.group(1).split("::")[-1]
        if name not in consts:
            consts[name] = concrete_eval_const(mir, name, consts)
        return consts[name]
    raise Unsupported("const operand `%s`" % tok)


# ------------------------------------------------------------------------------------ queries

class Instance:
    """One instantiation f(arg) of the translated function."""

    def __init__(self, blocks, param, arg, suffix, consts):
        self.enc = Enc(suffix, consts)
        self.paths = sym_exec(blocks, {param: arg}, self.enc)

    def result(self, idx):
        """ITE over paths."""
        key = "bv" if idx == 0 else "int"
        term = self.paths[-1][2][key]
        for pc, _, ret in reversed(self.paths[:-1]):
            term = "(ite %s %s %s)" % (conj(pc, idx), ret[key], term)
        return term

    def panic_free(self, idx):
        obl = []
        for pc, asserts, _ in self.paths:
            for apc, cond in asserts:
                obl.append("(=> %s %s)" % (conj(apc, idx), cond[idx]))
        obl = sorted(set(obl))
        return "(and true %s)" % " ".join(obl), len(obl)


def script(kind, decls, asserts, goal_negated, getvals=None):
    lines = ["(set-logic ALL)" if kind == "int" else "(set-logic ALL)", "(set-option :produce-models true)"]
    lines += decls
    lines += ["(assert %s)" % a for a in asserts]
    lines.append("(assert %s)" % goal_negated)
    lines.append("(check-sat)")
    return "\n".join(lines) + "\n"


def solve(solver_cmd, text, timeout=120):
    path = os.path.join(scratch_dir(), "q%d.smt2" % (abs(hash(text)) % 10 ** 9))
    open(path, "w").write(text)
    t0 = time.time()
    try:
        p = subprocess.run(solver_cmd + [path], stdout=subprocess.PIPE, stderr=subprocess.STDOUT, timeout=timeout)
        out = p.stdout.decode("utf-8", "replace")
    except subprocess.TimeoutExpired:
        return "timeout", "", time.time() - t0
    first = out.strip().splitlines()[0] if out.strip() else ""
    if "(error" in out or "error" in first.lower():
        return "error", out, time.time() - t0
    if first == "sat" and "(get-value" not in text:
        # ask again for the model (get-value after unsat would be an error line)
        return solve(solver_cmd, text + "(get-value (n))\n", timeout)
    if first in ("sat", "unsat", "unknown"):
        return first, out, time.time() - t0
    return "error", out, time.time() - t0


CVC5 = ["cvc5", "--lang", "smt2", "--solve-bv-as-int=sum", "--produce-models"]
Z3 = ["/usr/bin/z3", "-smt2"]


def parse_value(out):
    m = re.search(r"\(\(n (?:#x([0-9a-fA-F]+)|#b([01]+)|\(_ bv(\d+) 64\)|(\d+))\)\)", out)
    if not m:
        return None
    if m.group(1):
        return int(m.group(1), 16)
    if m.group(2):
        return int(m.group(2), 2)
    if m.group(3):
        return int(m.group(3))
    return int(m.group(4))


# ------------------------------------------------------------------------------------ native side

def build_native(repo_copy):
    """Small program on the PUBLIC API: Flow<SendBody>::calculate_max_input for a chunked POST."""
    src = os.path.join(VERIF, "replay", "cmi")
    dst = os.path.join(scratch_dir(), "cmi")
    if os.path.exists(dst):
        shutil.rmtree(dst)
    shutil.copytree(src, dst)
    toml = open(os.path.join(dst, "Cargo.toml.in")).read().replace("@REPO@", repo_copy)
    open(os.path.join(dst, "Cargo.toml"), "w").write(toml)
    shutil.copy(os.path.join(repo_copy, "Cargo.lock"), os.path.join(dst, "Cargo.lock"))
    env = dict(ENV)
    env["CARGO_TARGET_DIR"] = os.path.join(scratch_dir(), "target-native")
    rc, out, _ = sh(["cargo", "build", "--offline", "--release", "--manifest-path", os.path.join(dst, "Cargo.toml")],
                     cwd=dst, env=env, timeout=900)
    if rc != 0:
        raise Inconclusive("native cmi helper failed to build: %s" % (out or "")[-1500:])
    return os.path.join(env["CARGO_TARGET_DIR"], "release", "cmi")


def native_eval(binary, ns):
    rc, out, _ = sh([binary] + [str(n) for n in ns], timeout=120)
    vals = {}
    for line in (out or "").splitlines():
        m = re.match(r"^(\d+) -> (\d+|panic)$", line.strip())
        if m:
            vals[int(m.group(1))] = None if m.group(2) == "panic" else int(m.group(2))
    return vals


# ------------------------------------------------------------------------------------ entry point

def run_engine(repo_copy, tier, seed):
    t0 = time.time()
    res = {"samples": [], "inconclusive": [], "violations": [], "evaluations": 0, "distinct_nontrivial": 0,
           "obligations": 0, "discharged": 0}
    try:
        mir = dump_mir(repo_copy)
        item = extract_item(mir, r"^fn calculate_max_input\(")
        if item is None:
            raise Inconclusive("fn calculate_max_input not found in the MIR dump")
        params, blocks = parse_body(item)
        if len(params) != 1 or params[0][1] != "usize":
            raise Unsupported("signature %s" % params)
        param = params[0][0]
        consts = {}
        for name in set(re.findall(r"const (?:[\w]+::)*([A-Z][A-Z0-9_]+)", item)):
            consts[name] = concrete_eval_const(mir, name, consts)
        n_bv = {"bv": "n", "int": "n", "c": None}
        f_n = Instance(blocks, param, n_bv, "a", consts)
        n1 = {"bv": "(bvadd n (_ bv1 64))", "int": "(+ n 1)", "c": None}
        f_n1 = Instance(blocks, param, n1, "b", consts)
    except Unsupported as e:
        res["inconclusive"].append("mir2smt: unsupported MIR construct: %s" % e)
        return res
    except Inconclusive as e:
        res["inconclusive"].append("mir2smt: %s" % e)
        return res

    decl = {0: ["(declare-const n (_ BitVec 64))"], 1: ["(declare-const n Int)", ]}
    rng = {0: [], 1: ["(>= n 0)", "(<= n 18446744073709551615)"]}

    def side(inst, idx):
        return (inst.enc.decls_bv, inst.enc.side_bv) if idx == 0 else ([], [])

    pf_a = {i: f_n.panic_free(i) for i in (0, 1)}
    pf_b = {i: f_n1.panic_free(i) for i in (0, 1)}
    le = {0: "(bvule %s n)", 1: "(<= %s n)"}
    mono = {0: "(bvule %s %s)", 1: "(<= %s %s)"}
    notmax = {0: "(not (= n (_ bv18446744073709551615 64)))", 1: "(< n 18446744073709551615)"}

    queries = []
    for idx, (solver, sname) in enumerate(((CVC5, "cvc5 --solve-bv-as-int=sum (BV64 + division lemma)"),
                                           (Z3, "z3 4.8.12 (Int encoding)"))):
        d_a, s_a = side(f_n, idx)
        d_b, s_b = side(f_n1, idx)
        queries.append(("C18/no-arithmetic-panic", idx, sname, solver,
                        script("x", decl[idx] + d_a, rng[idx] + s_a, "(not %s)" % pf_a[idx][0], ["n"])))
        queries.append(("C18/advertised-never-exceeds-n", idx, sname, solver,
                        script("x", decl[idx] + d_a, rng[idx] + s_a + [pf_a[idx][0]],
                               "(not %s)" % (le[idx] % f_n.result(idx)), ["n"])))
        queries.append(("C18/advertised-never-decreases", idx, sname, solver,
                        script("x", decl[idx] + d_a + d_b, rng[idx] + s_a + s_b + [notmax[idx], pf_a[idx][0], pf_b[idx][0]],
                               "(not %s)" % (mono[idx] % (f_n.result(idx), f_n1.result(idx))), ["n"])))

    verdicts = {}
    native = None
    for role, idx, sname, solver, text in queries:
        st, out, dt = solve(solver, text, timeout=180 if tier == "quick" else 900)
        res["evaluations"] += 1
        verdicts.setdefault(role, []).append(st)
        res["samples"].append({"harness": "mir2smt:" + role, "engine": sname, "verdict": st,
                               "functions_encoded": "body::calculate_max_input + DEFAULT_CHUNK_* consts (from this run's MIR dump)",
                               "bounds": "none: n ranges over all 2^64 values", "solver_s": round(dt, 3),
                               "paths": len(f_n.paths), "panic_obligations": pf_a[idx][1],
                               "smtlib_bytes": len(text)})
        log("mir2smt %-34s %-8s %-6s %.2fs" % (role, sname.split()[0], st, dt))
        if st == "sat":
            n = parse_value(out)
            if native is None:
                native = build_native(repo_copy)
            vals = native_eval(native, [n, min(n + 1, M64)])
            fn, fn1 = vals.get(n, "?"), vals.get(min(n + 1, M64), "?")
            bad = (fn is None) or (isinstance(fn, int) and fn > n) or \
                  (role.endswith("decreases") and isinstance(fn, int) and isinstance(fn1, int) and fn1 < fn)
            if bad:
                res["violations"].append({"harness": "mir2smt", "role": role, "n": n, "native": {"f(n)": fn, "f(n+1)": fn1},
                                          "how_to_rerun": "Flow<SendBody>::calculate_max_input(%d) on a chunked POST flow" % n})
            else:
                res["inconclusive"].append("mir2smt %s: solver model n=%s does not reproduce natively (f(n)=%s, f(n+1)=%s)"
                                           % (role, n, fn, fn1))
        elif st != "unsat":
            res["inconclusive"].append("mir2smt %s via %s: %s %s" % (role, sname.split()[0], st, out[:200]))
    for role, vs in verdicts.items():
        res["obligations"] += 1
        if vs == ["unsat", "unsat"]:
            res["discharged"] += 1
            res["distinct_nontrivial"] += 1
        elif set(vs) == {"sat", "unsat"}:
            res["inconclusive"].append("mir2smt %s: solvers disagree %s" % (role, vs))

    # ---- translator validation: encoding vs. the real function on concrete inputs
    try:
        if native is None:
            native = build_native(repo_copy)
        pts = [0, 1, 2, 8, 9, 10, 11, 10247, 10248, 10249, 10250, 10256, 10257, 10258, 10259, 20495, 20496, 20497,
               2 ** 32, 2 ** 32 + 12345, M64 - 1, M64]
        import random
        rnd = random.Random(seed)
        pts += [rnd.randrange(0, 1 << 64) for _ in range(6)] + [rnd.randrange(0, 1 << 20) for _ in range(6)]
        nat = native_eval(native, pts)
        checked = 0
        d_a, s_a = f_n.enc.decls_bv, f_n.enc.side_bv
        for n in pts:
            if nat.get(n) is None:
                res["inconclusive"].append("translator validation: native f(%d) panicked or missing" % n)
                continue
            txt_bv = script("x", decl[0] + d_a, s_a + ["(= n %s)" % bvlit(n)],
                            "(not (= %s %s))" % (f_n.result(0), bvlit(nat[n])))
            txt_int = script("x", decl[1], rng[1] + ["(= n %d)" % n], "(not (= %s %d))" % (f_n.result(1), nat[n]))
            s1, _, _ = solve(CVC5, txt_bv, 60)
            s2, _, _ = solve(Z3, txt_int, 60)
            res["evaluations"] += 2
            if s1 == "unsat" and s2 == "unsat":
                checked += 1
            else:
                res["inconclusive"].append("translator validation failed at n=%d: encoding != real function (%s/%s)"
                                           % (n, s1, s2))
        res["samples"].append({"harness": "mir2smt:translator-validation", "verdict": "ok" if checked == len(pts) else "mismatch",
                               "points": len(pts), "agree": checked,
                               "how": "for each point the encoding (both logics) is asserted != the value the real function "
                                      "returns through Flow<SendBody>::calculate_max_input; unsat = agreement"})
        res["obligations"] += 1
        if checked == len(pts):
            res["discharged"] += 1
            res["distinct_nontrivial"] += 1
    except Inconclusive as e:
        res["inconclusive"].append("mir2smt native validation: %s" % e)
    log("mir2smt done in %.1fs" % (time.time() - t0))
    return res


def run(repo_copy, tier, seed):  # noqa: F811  (entry point name used by bin/check)
    return run_engine(repo_copy, tier, seed)
