// Demonstration (public API only): send_body_despite_method() without a framing header (C09).
use ureq_proto::client::flow::*;
use ureq_proto::http::Request;

#[test]
fn despite_method_without_framing_header_can_send_a_body() {
    let req = Request::get("http://a.test/x").body(()).unwrap();
    let mut flow = Flow::new(req).unwrap();
    flow.send_body_despite_method();
    let mut flow = flow.proceed();
    let mut out = vec![0u8; 1024];
    let n = flow.write(&mut out).unwrap();
    let head = std::str::from_utf8(&out[..n]).unwrap().to_string();
    let mut flow = match flow.proceed().unwrap().unwrap() {
        SendRequestResult::SendBody(f) => f,
        _ => panic!("expected SendBody"),
    };
    // a body is due: it must not be reported finished before anything was written
    assert!(!flow.can_proceed());
    assert!(head.contains("transfer-encoding: chunked\r\n"), "{head}");
    let (i, o) = flow.write(b"hi", &mut out).unwrap();
    assert_eq!((i, o), (2, 7));
    // panicked with "entered unreachable code" before the fix
    let (_, o) = flow.write(&[], &mut out).unwrap();
    assert_eq!(o, 5);
    assert!(flow.can_proceed());
}
