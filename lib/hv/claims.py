"""What MANIFEST.json claims (bin/gen_manifest turns this into the JSON)."""

BMC = "bounded model checking of the real code (Kani/CBMC): inductive single-step harness from an arbitrary state satisfying the representation invariant"

CLAIMS = {
    "C04": {
        "text": "For every sized-writer state (remaining length any u64, finished flag per invariant) and every input/output "
                "window up to 16 bytes with symbolic contents, one Call::write / consume_direct_write step satisfies the "
                "property's clauses (min-of-three, verbatim copy, refusal without side effect, finished iff zero left). "
                "One inductive step from an arbitrary valid state covers histories of any length; the bound is on slice length only.",
        "design_ref": "DESIGN.md §3 C04",
        "note": "slices <= 16 bytes; Kani/CBMC toolchain trusted; representation invariant = exact image of the constructors",
        "technique": BMC,
    },
}

PENDING = "check not built yet in this session (planned, see DESIGN.md §3); nothing is claimed"
NOT_APPLICABLE = {
    "C14": "RFC 3986 resolution is url::Url::join (url/idna/ICU tables): one concrete join does not finish symbolic execution "
           "in 10 min and Url cannot be stubbed without hiding exactly the wrapper the property is about (DESIGN.md §3 C14)",
}
for _p in ["C01", "C02", "C03", "C05", "C06", "C07", "C08", "C09", "C10", "C11", "C12", "C13", "C15", "C16", "C17",
           "C18", "C19", "C20"]:
    if _p not in CLAIMS:
        NOT_APPLICABLE[_p] = PENDING

NOTES = ("Every check rebuilds from /repo's working tree (rsync to a scratch dir under $TMPDIR, removed afterwards). "
         "Exit 0 = all harnesses of the property hold within their stated bounds and every cover witness is satisfied; "
         "exit 1 = solver counterexample reproduced natively against the real code; exit 2 = inconclusive "
         "(timeout/OOM/unwinding assertion/compile error/non-reproducing counterexample) - never reported as success.")
