//! Harnesses for src/client/call.rs (child of `client::call`: sees Call/BodyState/Phase privates).
#![allow(dead_code, unused_imports)]
use super::*;
use crate::body::verif_h as bh;
use crate::verif_common::*;
use crate::verif_tier::THOROUGH;

// ---------------------------------------------------------------- state constructors

pub(crate) fn mk_state(phase: Phase, writer: BodyWriter, reader: Option<BodyReader>) -> BodyState {
    BodyState {
        phase,
        writer,
        reader,
        skip_method_body_check: false,
        stop_on_chunk_boundary: false,
    }
}

/// A `Call` in an arbitrary type state over the trivial request (GET / HTTP/1.1, no headers).
/// `analyzed` is true once any byte has been written, which is the case in every body phase.
pub(crate) fn mk_call<S>(state: BodyState, analyzed: bool) -> Call<S, ()> {
    Call {
        request: AmendedRequest::new(Request::new(())),
        analyzed,
        state,
        _ph: PhantomData,
    }
}

pub(crate) fn phase_is_send_body(c: &BodyState) -> bool {
    c.phase == Phase::SendBody
}

const W04: usize = 16;

//@ props: C04 C01
//@ tier: quick
//@ unwind: 4
//@ unwindset: c04_call_write_step=18 try_from_fn_erased=66 array..from_fn=66 from_fn=66
//@ timeout: 900
//@ encodes: Call::<WithBody>::write (body phase: after-finish guard, over-length guard), BodyWriter::write (Sized), Writer
//@ vars: left: any u64; ended: bool (RI: ended => left==0); input/out buffers 16 symbolic bytes each, in,out<=16
//@ bounds: slices <= 16 bytes; left unbounded
//@ outside: slices longer than 16 bytes
//@ clause: accepted => (k,k) with k=min(in,out,left), verbatim, left'=left-k, finished <=> left'==0; in>left or non-empty-after-end => Err, no byte emitted, state unchanged
#[kani::proof]
fn c04_call_write_step() {
    let bw0 = bh::any_writer_sized();
    let left = bh::writer_left(&bw0).unwrap();
    let ended = bw0.is_ended();
    let inp: [u8; W04] = kani::any();
    let out0: [u8; W04] = kani::any();
    let il = any_le(W04);
    let ol = any_le(W04);
    let mut call: Call<WithBody, ()> = mk_call(mk_state(Phase::SendBody, bw0, None), true);
    let mut out = out0;
    let r = call.write(&inp[..il], &mut out[..ol]);
    let left_us = if left > usize::MAX as u64 { usize::MAX } else { left as usize };
    let refuse = (il > 0 && ended) || (il as u64 > left);
    match r {
        Ok((i, o)) => {
            assert!(!refuse, "C04/overshoot-or-after-end-must-be-refused");
            let k = il.min(ol).min(left_us);
            assert!(i == k && o == k, "C04/moves-min-of-three");
            let mut j = 0;
            while j < W04 {
                if j < k {
                    assert!(out[j] == inp[j], "C04/bytes-verbatim");
                } else {
                    assert!(out[j] == out0[j], "C04/beyond-k-untouched");
                }
                j += 1;
            }
            assert!(bh::writer_left(&call.state.writer) == Some(left - k as u64), "C04/countdown-exact");
            assert!(call.is_finished() == (left - k as u64 == 0), "C04/finished-iff-zero-left");
            kani::cover!(k > 0 && k < il, "partial");
            kani::cover!(call.is_finished() && k > 0, "finishing-write");
            kani::cover!(il == 0 && left == 0 && !ended, "N-zero-empty-write-finishes");
        }
        Err(e) => {
            assert!(refuse, "C04/accepts-every-write-within-length");
            if il > 0 && ended {
                assert!(e == Error::BodyContentAfterFinish, "C04/after-end-error-kind");
            } else {
                assert!(e == Error::BodyLargerThanContentLength, "C04/overshoot-error-kind");
            }
            let mut j = 0;
            while j < W04 {
                assert!(out[j] == out0[j], "C04/refusal-emits-nothing");
                j += 1;
            }
            assert!(bh::writer_same(&call.state.writer, &bw0), "C04/refusal-changes-nothing");
            assert!(phase_is_send_body(&call.state), "C04/refusal-keeps-phase");
            kani::cover!(il as u64 == left + 1, "overshoot-by-one");
            kani::cover!(ended && il > 0, "write-after-end");
        }
    }
    core::mem::forget(call);
}

//@ props: C04
//@ tier: quick
//@ unwind: 4
//@ unwindset: try_from_fn_erased=66 array..from_fn=66 from_fn=66
//@ timeout: 900
//@ encodes: Call::<WithBody>::consume_direct_write, BodyWriter::consume_direct_write, BodyWriter::left_to_send
//@ vars: writer: Sized(any u64, ended per RI) or Chunked(ended any); amount: any usize
//@ bounds: none (full ranges)
//@ outside: -
//@ clause: sized: amount<=left => Ok, left'=left-amount, finished<=>left'==0; amount>left => Err(BodyLargerThanContentLength) unchanged; chunked => Err(BodyIsChunked) unchanged
#[kani::proof]
fn c04_call_direct_step() {
    let chunked: bool = kani::any();
    let bw0 = if chunked { bh::mk_writer_chunked(kani::any()) } else { bh::any_writer_sized() };
    let amount: usize = kani::any();
    let mut call: Call<WithBody, ()> = mk_call(mk_state(Phase::SendBody, bw0, None), true);
    let r = call.consume_direct_write(amount);
    match bh::writer_left(&bw0) {
        None => {
            assert!(r == Err(Error::BodyIsChunked), "C04/direct-on-chunked-refused");
            assert!(bh::writer_same(&call.state.writer, &bw0), "C04/refusal-changes-nothing");
        }
        Some(left) => {
            if amount as u64 > left {
                assert!(r == Err(Error::BodyLargerThanContentLength), "C04/direct-overshoot-refused");
                assert!(bh::writer_same(&call.state.writer, &bw0), "C04/refusal-changes-nothing");
                kani::cover!(amount as u64 == left + 1, "direct-overshoot-by-one");
            } else {
                assert!(r.is_ok(), "C04/direct-within-length-accepted");
                assert!(bh::writer_left(&call.state.writer) == Some(left - amount as u64), "C04/direct-countdown-exact");
                // finished only when exactly N accounted for
                if call.is_finished() {
                    assert!(left - amount as u64 == 0, "C04/finished-only-at-zero");
                }
                if left - amount as u64 == 0 {
                    assert!(call.is_finished(), "C04/finished-at-zero");
                }
                kani::cover!(call.is_finished() && amount > 0, "direct-finishes");
            }
        }
    }
    core::mem::forget(call);
}
