//! Harness helpers for src/util.rs (child of `util`: sees ArrayVec's private fields).
#![allow(dead_code, unused_imports)]
use super::*;
use crate::verif_common::*;
use http::{HeaderName, HeaderValue};

const UNINIT_NAME: HeaderName = HeaderName::from_static("x-null");
const UNINIT_VALUE: HeaderValue = HeaderValue::from_static("");
const UNINIT_PAIR: (HeaderName, HeaderValue) = (UNINIT_NAME, UNINIT_VALUE);

/// The state `ArrayVec::from_fn(|_| (UNINIT_NAME, UNINIT_VALUE))` produces, built with an
/// array-repeat expression instead of `core::array::from_fn` (whose 64-iteration guard loop
/// costs ~45 s of symbolic execution per harness). Equivalence with the real constructor is
/// checked by `amended_h::c02_constructor_equivalence`.
pub(crate) fn mk_header_vec<const N: usize>() -> ArrayVec<(HeaderName, HeaderValue), N> {
    ArrayVec { len: 0, arr: [UNINIT_PAIR; N] }
}
pub(crate) fn mk_name_vec<const N: usize>() -> ArrayVec<HeaderName, N> {
    ArrayVec { len: 0, arr: [UNINIT_NAME; N] }
}
pub(crate) fn av_len<T, const N: usize>(v: &ArrayVec<T, N>) -> usize {
    v.len
}

/// Empty ArrayVec of any capacity (capacity inferred from the field it is assigned to).
pub(crate) fn mk_av<T: Copy, const N: usize>(fill: T) -> ArrayVec<T, N> {
    ArrayVec { len: 0, arr: [fill; N] }
}
pub(crate) fn av_cap<T, const N: usize>(_v: &ArrayVec<T, N>) -> usize {
    N
}
