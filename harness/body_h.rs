//! Harnesses for src/body.rs (child module of `body`: sees BodyWriter/BodyReader privates).
#![allow(dead_code, unused_imports)]
use super::*;
use crate::verif_common::*;
use crate::verif_tier::THOROUGH;

// ---------------------------------------------------------------- state constructors
// Representation invariant of BodyWriter = exact image of the constructors + write():
//   {None, ended=true} | {Chunked, ended in {f,t}} | {Sized(left), ended} with ended => left == 0

pub(crate) fn mk_writer_none() -> BodyWriter {
    BodyWriter { mode: SenderMode::None, ended: true }
}
pub(crate) fn mk_writer_chunked(ended: bool) -> BodyWriter {
    BodyWriter { mode: SenderMode::Chunked, ended }
}
pub(crate) fn mk_writer_sized(left: u64, ended: bool) -> BodyWriter {
    BodyWriter { mode: SenderMode::Sized(left), ended }
}
/// Arbitrary sized writer satisfying the invariant.
pub(crate) fn any_writer_sized() -> BodyWriter {
    let left: u64 = kani::any();
    let ended: bool = kani::any();
    kani::assume(!ended || left == 0);
    mk_writer_sized(left, ended)
}
pub(crate) fn writer_left(w: &BodyWriter) -> Option<u64> {
    match w.mode {
        SenderMode::Sized(v) => Some(v),
        _ => None,
    }
}
pub(crate) fn writer_is_none(w: &BodyWriter) -> bool {
    matches!(w.mode, SenderMode::None)
}
pub(crate) fn writer_same(a: &BodyWriter, b: &BodyWriter) -> bool {
    let m = match (a.mode, b.mode) {
        (SenderMode::None, SenderMode::None) => true,
        (SenderMode::Chunked, SenderMode::Chunked) => true,
        (SenderMode::Sized(x), SenderMode::Sized(y)) => x == y,
        _ => false,
    };
    m && a.ended == b.ended
}

const W04: usize = 16;

//@ props: C04 C01 C19
//@ tier: quick
//@ unwind: 4
//@ unwindset: c04_writer_sized_step=18
//@ timeout: 600
//@ encodes: BodyWriter::write (Sized arm), Writer::try_write, Cursor::write, write_all
//@ vars: left: any u64; ended: bool (RI: ended => left==0); input 16 symbolic bytes, in<=16; out buffer 16 symbolic bytes, out<=16
//@ bounds: slices <= 16 bytes; left unbounded (full u64)
//@ outside: slices longer than 16 bytes (only min() and one memcpy depend on the length)
//@ clause: k=min(in,out,left) consumed==produced; out[..k]==in[..k]; bytes beyond k untouched; left'=left-k; ended' <=> left'==0
#[kani::proof]
fn c04_writer_sized_step() {
    let left: u64 = kani::any();
    let inp: [u8; W04] = kani::any();
    let out0: [u8; W04] = kani::any();
    let il = any_le(W04);
    let ol = any_le(W04);
    // precondition enforced by Call::write before delegating (checked separately in call_h)
    kani::assume(il as u64 <= left);
    let mut bw = mk_writer_sized(left, false);
    let mut out = out0;
    let n = {
        let mut w = Writer::new(&mut out[..ol]);
        let n = bw.write(&inp[..il], &mut w);
        let produced = w.len();
        core::mem::forget(w);
        assert!(produced == n, "C04/consumed-equals-produced");
        n
    };
    let left_us = if left > usize::MAX as u64 { usize::MAX } else { left as usize };
    let k = il.min(ol).min(left_us);
    assert!(n == k, "C04/moves-min-of-three");
    let mut i = 0;
    while i < W04 {
        if i < k {
            assert!(out[i] == inp[i], "C04/bytes-verbatim");
        } else {
            assert!(out[i] == out0[i], "C04/beyond-k-untouched");
        }
        i += 1;
    }
    assert!(writer_left(&bw) == Some(left - k as u64), "C04/countdown-exact");
    assert!(bw.is_ended() == (left - k as u64 == 0), "C04/finished-iff-zero-left");
    // C19 (sized): progress whenever possible
    if il >= 1 && ol >= 1 && left >= 1 {
        assert!(n >= 1, "C19/sized-progress");
    }
    kani::cover!(n == 0 && il > 0, "refused-by-zero-space");
    kani::cover!(n > 0 && n < il, "partial");
    kani::cover!(bw.is_ended() && n > 0, "finishing-write");
    kani::cover!(left > u32::MAX as u64, "huge-left");
    kani::cover!(left == 0 && bw.is_ended(), "N-zero-finishes-on-empty-write");
}

//@ props: C04
//@ tier: quick
//@ unwind: 3
//@ timeout: 300
//@ encodes: BodyWriter::consume_direct_write
//@ vars: left: any u64; amount: any usize with amount<=left (guard checked at Call level)
//@ bounds: none (full 64-bit ranges)
//@ outside: -
//@ clause: left'=left-amount; ended' <=> left'==0
#[kani::proof]
fn c04_writer_direct_step() {
    let left: u64 = kani::any();
    let amount: usize = kani::any();
    kani::assume(amount as u64 <= left);
    let mut bw = mk_writer_sized(left, false);
    bw.consume_direct_write(amount);
    assert!(writer_left(&bw) == Some(left - amount as u64), "C04/direct-countdown-exact");
    assert!(bw.is_ended() == (left == amount as u64), "C04/direct-finished-iff-zero-left");
    kani::cover!(bw.is_ended(), "direct-finishes");
    kani::cover!(!bw.is_ended() && amount > 0, "direct-partial");
}
