//! Harnesses for src/client/call.rs (child of `client::call`: sees Call/BodyState/Phase privates).
#![allow(dead_code, unused_imports)]
use super::*;
use crate::body::verif_h as bh;
use crate::verif_common::*;
use crate::verif_tier::THOROUGH;

// ---------------------------------------------------------------- state constructors

pub(crate) fn mk_state(phase: Phase, writer: BodyWriter, reader: Option<BodyReader>) -> BodyState {
    BodyState {
        phase,
        writer,
        reader,
        skip_method_body_check: false,
        stop_on_chunk_boundary: false,
    }
}

/// A `Call` in an arbitrary type state over the trivial request (GET / HTTP/1.1, no headers).
/// `analyzed` is true once any byte has been written, which is the case in every body phase.
pub(crate) fn mk_call<S>(state: BodyState, analyzed: bool) -> Call<S, ()> {
    Call {
        request: crate::client::amended::verif_h::mk_amended(Request::new(())),
        analyzed,
        state,
        _ph: PhantomData,
    }
}

pub(crate) fn phase_is_send_body(c: &BodyState) -> bool {
    c.phase == Phase::SendBody
}

const W04: usize = if THOROUGH { 32 } else { 16 };

//@ props: C04 C01
//@ tier: quick
//@ unwind: 4
//@ unwindset: c04_call_write_step=18|34
//@ timeout: 900
//@ encodes: Call::<WithBody>::write (body phase: after-finish guard, over-length guard), BodyWriter::write (Sized), Writer
//@ vars: left: any u64; ended: bool (RI: ended => left==0); input/out buffers 16 symbolic bytes each, in,out<=16
//@ bounds: slices <= 16 bytes (32 in the thorough tier); left unbounded
//@ outside: slices longer than 16 bytes
//@ clause: accepted => (k,k) with k=min(in,out,left), verbatim, left'=left-k, finished <=> left'==0; in>left or non-empty-after-end => Err, no byte emitted, state unchanged
#[kani::proof]
fn c04_call_write_step() {
    let bw0 = bh::any_writer_sized();
    let left = bh::writer_left(&bw0).unwrap();
    let ended = bw0.is_ended();
    let inp: [u8; W04] = kani::any();
    let out0: [u8; W04] = kani::any();
    let il = any_le(W04);
    let ol = any_le(W04);
    let mut call: Call<WithBody, ()> = mk_call(mk_state(Phase::SendBody, bw0, None), true);
    let mut out = out0;
    let r = call.write(&inp[..il], &mut out[..ol]);
    let left_us = if left > usize::MAX as u64 { usize::MAX } else { left as usize };
    let refuse = (il > 0 && ended) || (il as u64 > left);
    match r {
        Ok((i, o)) => {
            assert!(!refuse, "C04/overshoot-or-after-end-must-be-refused");
            let k = il.min(ol).min(left_us);
            assert!(i == k && o == k, "C04/moves-min-of-three");
            let mut j = 0;
            while j < W04 {
                if j < k {
                    assert!(out[j] == inp[j], "C04/bytes-verbatim");
                } else {
                    assert!(out[j] == out0[j], "C04/beyond-k-untouched");
                }
                j += 1;
            }
            assert!(bh::writer_left(&call.state.writer) == Some(left - k as u64), "C04/countdown-exact");
            assert!(call.is_finished() == (left - k as u64 == 0), "C04/finished-iff-zero-left");
            kani::cover!(k > 0 && k < il, "partial");
            kani::cover!(call.is_finished() && k > 0, "finishing-write");
            kani::cover!(il == 0 && left == 0 && !ended, "N-zero-empty-write-finishes");
        }
        Err(e) => {
            assert!(refuse, "C04/accepts-every-write-within-length");
            if il > 0 && ended {
                assert!(matches!(e, Error::BodyContentAfterFinish), "C04/after-end-error-kind");
            } else {
                assert!(matches!(e, Error::BodyLargerThanContentLength), "C04/overshoot-error-kind");
            }
            let mut j = 0;
            while j < W04 {
                assert!(out[j] == out0[j], "C04/refusal-emits-nothing");
                j += 1;
            }
            assert!(bh::writer_same(&call.state.writer, &bw0), "C04/refusal-changes-nothing");
            assert!(phase_is_send_body(&call.state), "C04/refusal-keeps-phase");
            kani::cover!(il as u64 == left + 1, "overshoot-by-one");
            kani::cover!(ended && il > 0, "write-after-end");
        }
    }
    core::mem::forget(call);
}

//@ props: C04
//@ tier: quick
//@ unwind: 4
//@ unwindset:
//@ timeout: 900
//@ encodes: Call::<WithBody>::consume_direct_write, BodyWriter::consume_direct_write, BodyWriter::left_to_send
//@ vars: writer: Sized(any u64, ended per RI) or Chunked(ended any); amount: any usize
//@ bounds: none (full ranges)
//@ outside: -
//@ clause: sized: amount<=left => Ok, left'=left-amount, finished<=>left'==0; amount>left => Err(BodyLargerThanContentLength) unchanged; chunked => Err(BodyIsChunked) unchanged
#[kani::proof]
fn c04_call_direct_step() {
    let chunked: bool = kani::any();
    let bw0 = if chunked { bh::mk_writer_chunked(kani::any()) } else { bh::any_writer_sized() };
    let amount: usize = kani::any();
    let mut call: Call<WithBody, ()> = mk_call(mk_state(Phase::SendBody, bw0, None), true);
    let r = call.consume_direct_write(amount);
    match bh::writer_left(&bw0) {
        None => {
            assert!(matches!(r, Err(Error::BodyIsChunked)), "C04/direct-on-chunked-refused");
            assert!(bh::writer_same(&call.state.writer, &bw0), "C04/refusal-changes-nothing");
        }
        Some(left) => {
            if amount as u64 > left {
                assert!(matches!(r, Err(Error::BodyLargerThanContentLength)), "C04/direct-overshoot-refused");
                assert!(bh::writer_same(&call.state.writer, &bw0), "C04/refusal-changes-nothing");
                kani::cover!(amount as u64 == left + 1, "direct-overshoot-by-one");
            } else {
                assert!(r.is_ok(), "C04/direct-within-length-accepted");
                assert!(bh::writer_left(&call.state.writer) == Some(left - amount as u64), "C04/direct-countdown-exact");
                // finished only when exactly N accounted for
                if call.is_finished() {
                    assert!(left - amount as u64 == 0, "C04/finished-only-at-zero");
                }
                if left - amount as u64 == 0 {
                    assert!(call.is_finished(), "C04/finished-at-zero");
                }
                kani::cover!(call.is_finished() && amount > 0, "direct-finishes");
            }
        }
    }
    core::mem::forget(call);
}

// =====================================================================================
// C08 — length- and close-delimited response bodies
// =====================================================================================

const W08: usize = if THOROUGH { 32 } else { 16 };

pub(crate) fn reader_of<S>(c: &Call<S, ()>) -> Option<BodyReader> {
    c.state.reader
}

//@ props: C08 C01 C12
//@ tier: quick
//@ unwind: 4
//@ unwindset: c08_call_read_length_step=18|34
//@ timeout: 900
//@ encodes: Call::<RecvBody>::read, BodyReader::read, BodyReader::read_limit, BodyReader::is_ended, util::log_data
//@ vars: remaining: any u64; input window 16 symbolic bytes (its tail plays the next response), in<=16; output 16 symbolic bytes, out<=16
//@ bounds: windows <= 16 bytes (32 in the thorough tier); remaining unbounded
//@ outside: windows longer than 16 bytes
//@ clause: k=min(in,out,remaining) copied verbatim, (k,k) reported, nothing beyond k consumed or written, remaining'=remaining-k, ended <=> remaining'==0, (0,0) once ended
#[kani::proof]
fn c08_call_read_length_step() {
    let left: u64 = kani::any();
    let inp: [u8; W08] = kani::any();
    let out0: [u8; W08] = kani::any();
    let il = any_le(W08);
    let ol = any_le(W08);
    let mut call: Call<RecvBody, ()> = mk_call(
        mk_state(Phase::RecvBody, bh::mk_writer_none(), Some(BodyReader::LengthDelimited(left))),
        true,
    );
    let mut out = out0;
    let r = call.read(&inp[..il], &mut out[..ol]);
    let left_us = if left > usize::MAX as u64 { usize::MAX } else { left as usize };
    let k = il.min(ol).min(left_us);
    match r {
        Ok((i, o)) => {
            assert!(i <= il && o <= ol, "C12/counts-within-windows");
            assert!(i == k && o == k, "C08/moves-min-of-three");
        }
        Err(_) => assert!(false, "C08/length-delimited-read-never-errs"),
    }
    let mut j = 0;
    while j < W08 {
        if j < k {
            assert!(out[j] == inp[j], "C08/bytes-verbatim");
        } else {
            assert!(out[j] == out0[j], "C08/beyond-k-untouched");
        }
        j += 1;
    }
    assert!(call.state.reader == Some(BodyReader::LengthDelimited(left - k as u64)), "C08/countdown-exact");
    assert!(call.is_ended() == (left - k as u64 == 0), "C08/complete-iff-N-delivered");
    assert!(!call.is_close_delimited(), "C08/length-delimited-is-not-close-delimited");
    kani::cover!(left == 0 && il > 0, "ended-short-circuit-with-next-response-bytes-present");
    kani::cover!(k == left_us && il > k, "trailing-bytes-of-next-response-left-unconsumed");
    kani::cover!(k > 0 && k < left_us, "partial");
    kani::cover!(left > u32::MAX as u64, "huge-left");
    core::mem::forget(call);
}

//@ props: C08 C01 C12
//@ tier: quick
//@ unwind: 4
//@ unwindset: c08_call_read_close_step=18|34
//@ timeout: 900
//@ encodes: Call::<RecvBody>::read, BodyReader::read, BodyReader::read_unlimit, is_ended, is_close_delimited
//@ vars: input window 16 symbolic bytes, in<=16; output 16 symbolic bytes, out<=16
//@ bounds: windows <= 16 bytes (32 in the thorough tier)
//@ outside: windows longer than 16 bytes
//@ clause: k=min(in,out) passed through verbatim, (k,k) reported, reader stays close-delimited, never ended
#[kani::proof]
fn c08_call_read_close_step() {
    let inp: [u8; W08] = kani::any();
    let out0: [u8; W08] = kani::any();
    let il = any_le(W08);
    let ol = any_le(W08);
    let mut call: Call<RecvBody, ()> = mk_call(
        mk_state(Phase::RecvBody, bh::mk_writer_none(), Some(BodyReader::CloseDelimited)),
        true,
    );
    let mut out = out0;
    let r = call.read(&inp[..il], &mut out[..ol]);
    let k = il.min(ol);
    assert!(matches!(r, Ok((i, o)) if i == k && o == k), "C08/close-delimited-passes-min-of-two");
    let mut j = 0;
    while j < W08 {
        if j < k {
            assert!(out[j] == inp[j], "C08/bytes-verbatim");
        } else {
            assert!(out[j] == out0[j], "C08/beyond-k-untouched");
        }
        j += 1;
    }
    assert!(call.state.reader == Some(BodyReader::CloseDelimited), "C08/close-delimited-state-stable");
    assert!(call.is_close_delimited() && !call.is_ended(), "C08/close-delimited-never-ends-by-count");
    kani::cover!(k == 0 && il > 0, "no-output-space");
    kani::cover!(k > 0 && k < il, "partial");
    core::mem::forget(call);
}

//@ props: C08 C12
//@ tier: quick
//@ unwind: 4
//@ unwindset: memcmp=10
//@ timeout: 900
//@ encodes: Call::<RecvBody>::read with reader NoBody
//@ vars: input/out windows <= 8 symbolic bytes
//@ bounds: windows <= 8
//@ outside: -
//@ clause: a call whose body is absent reads (0,0) and writes nothing
#[kani::proof]
fn c08_call_read_nobody_step() {
    let inp: [u8; 8] = kani::any();
    let out0: [u8; 8] = kani::any();
    let il = any_le(8);
    let ol = any_le(8);
    let mut call: Call<RecvBody, ()> =
        mk_call(mk_state(Phase::RecvBody, bh::mk_writer_none(), Some(BodyReader::NoBody)), true);
    let mut out = out0;
    let r = call.read(&inp[..il], &mut out[..ol]);
    assert!(matches!(r, Ok((0, 0))), "C08/no-body-reads-nothing");
    assert!(out == out0, "C08/beyond-k-untouched");
    assert!(call.is_ended(), "C08/no-body-is-ended");
    kani::cover!(il > 0 && ol > 0, "bytes-offered");
    core::mem::forget(call);
}

// =====================================================================================
// C03 — chunked body at the Call level (guards + delegation)
// =====================================================================================

const N03: usize = 64;

//@ props: C03 C01
//@ tier: quick
//@ unwind: 6
//@ unwindset: write_all=3
//@ timeout: 900
//@ encodes: Call::<WithBody>::write (body phase, chunked writer: after-finish guard, delegation), BodyWriter::write, BodyWriter::finish
//@ stubs_note: body::write_chunk replaced by havoc constrained by chunk_spec (proven by c03_lemma_write_chunk_*); <Writer as io::Write>::write count-abstracted
//@ vars: finished: bool; in: 0..=64; out: 0..=64
//@ bounds: in,out <= 64
//@ outside: larger windows at this level (the writer itself is covered up to 30808 by c03_composite_chunked_write)
//@ clause: finished && non-empty input => Err(BodyContentAfterFinish), nothing emitted, state unchanged; finished && empty => (0,0); otherwise (consumed, produced) are the writer's counts and is_finished() <=> terminator emitted
#[kani::proof]
#[kani::stub(crate::body::write_chunk, crate::body::verif_h::p_write_chunk)]
#[kani::stub(<Writer<'_> as std::io::Write>::write, crate::body::verif_h::p_writer_write_counts)]
fn c03_call_chunked_step() {
    let ended: bool = kani::any();
    let il = any_le(N03);
    let ol = any_le(N03);
    let input = [0u8; N03];
    let mut out = [0u8; N03];
    let mut call: Call<WithBody, ()> = mk_call(mk_state(Phase::SendBody, bh::mk_writer_chunked(ended), None), true);
    bh::ghost_reset();
    let r = call.write(&input[..il], &mut out[..ol]);
    let (_chunks, data, wire) = bh::ghost();
    if ended && il > 0 {
        assert!(matches!(r, Err(Error::BodyContentAfterFinish)), "C03/non-empty-write-after-finish-refused");
        assert!(call.is_finished(), "C03/finished-is-stable");
        assert!(wire == 0, "C03/refusal-emits-nothing");
    } else {
        match r {
            Err(_) => assert!(false, "C03/accepted-write-never-errs"),
            Ok((i, o)) => {
                if il > 0 {
                    assert!(i == data && o == wire, "C03/only-whole-chunks-no-terminator-with-input");
                    assert!(!call.is_finished(), "C03/not-finished-by-data-write");
                    if ol >= 6 {
                        assert!(i >= 1, "C19/progress-when-six-bytes-free");
                    }
                } else if ended {
                    assert!(i == 0 && o == 0, "C03/terminator-exactly-once");
                    assert!(call.is_finished(), "C03/finished-is-stable");
                } else {
                    assert!(i == 0 && o == if ol >= 5 { 5 } else { 0 }, "C03/terminator-iff-five-bytes-free");
                    assert!(call.is_finished() == (o == 5), "C03/finished-iff-terminator-emitted");
                }
            }
        }
    }
    assert!(phase_is_send_body(&call.state), "C03/stays-in-body-phase");
    kani::cover!(ended && il > 0, "write-after-finish");
    kani::cover!(!ended && il == 0 && ol == 4, "terminator-does-not-fit");
    kani::cover!(!ended && il > 0 && ol == 5, "five-spare-bytes-with-input");
    core::mem::forget(call);
}

// =====================================================================================
// C17 — a rejected request leaves no trace
// =====================================================================================
use crate::client::amended::verif_h as ah;

fn c17_reject_case(mi: usize, vi: usize, with_body: bool, skip: bool) {
    let out0: [u8; 8] = kani::any();
    let ol = any_le(8);
    let mut out = out0;
    let writer = if with_body { BodyWriter::new_chunked() } else { BodyWriter::new_none() };
    let mut st = mk_state(Phase::SendLine, writer, None);
    st.skip_method_body_check = skip;
    let req = ah::mk_request(mi, vi);
    if with_body {
        let mut call: Call<WithBody, ()> = Call {
            request: ah::mk_amended(req), analyzed: false, state: st, _ph: PhantomData,
        };
        let r1 = call.write(&[], &mut out[..ol]);
        assert!(r1.is_err(), "C17/invalid-request-rejected-on-first-write");
        assert!(!call.analyzed && call.is_prelude() && !call.is_body(), "C17/rejected-call-never-ready");
        let r2 = call.write(&[], &mut out[..ol]);
        assert!(r2.is_err(), "C17/rejection-is-repeatable");
        core::mem::forget((r1, r2));
        core::mem::forget(call);
    } else {
        let mut call: Call<WithoutBody, ()> = Call {
            request: ah::mk_amended(req), analyzed: false, state: st, _ph: PhantomData,
        };
        let r1 = call.write(&mut out[..ol]);
        assert!(r1.is_err(), "C17/invalid-request-rejected-on-first-write");
        assert!(!call.analyzed && !call.is_finished(), "C17/rejected-call-never-ready");
        let r2 = call.write(&mut out[..ol]);
        assert!(r2.is_err(), "C17/rejection-is-repeatable");
        core::mem::forget((r1, r2));
        core::mem::forget(call);
    }
    let mut i = 0;
    while i < 8 {
        assert!(out[i] == out0[i], "C17/rejection-emits-nothing");
        i += 1;
    }
    kani::cover!(ol == 8, "rejected-with-room-to-write");
}

//@ props: C17
//@ tier: quick
//@ unwind: 4
//@ unwindset: c17_reject_case=12 memcmp=12
//@ timeout: 900
//@ encodes: Call::<WithBody>::write / Call::<WithoutBody>::write on a not-yet-analysed call, Call::analyze_request, AmendedRequest::analyze, readiness predicates is_prelude/is_body/is_finished
//@ vars: output buffer 8 symbolic bytes, out<=8; request concrete per harness: (GET, HTTP/2), (HEAD, HTTP/0.9), (PUT, HTTP/1.0), (GET 1.1 via the with-body constructor), (POST 1.1 via the without-body constructor)
//@ bounds: header-less requests, one representative per rejection class (the classes themselves are decided exhaustively by c17_analyze_version_method_table)
//@ outside: rejections caused by header values (c17_cell_* family, thorough tier)
//@ clause: a rejected request yields Err on the first write, no output byte is touched, the call stays un-analysed in its initial phase (not ready to advance), and a second attempt yields an error again
#[kani::proof]
fn c17_reject_http2_get() {
    c17_reject_case(0, 3, false, false);
}

//@ like: c17_reject_http2_get
#[kani::proof]
fn c17_reject_http09_head() {
    c17_reject_case(1, 0, false, false);
}

//@ like: c17_reject_http2_get
#[kani::proof]
fn c17_reject_http10_put() {
    c17_reject_case(3, 1, true, false);
}

//@ like: c17_reject_http2_get
#[kani::proof]
fn c17_reject_get_with_body() {
    c17_reject_case(0, 2, true, false);
}

//@ like: c17_reject_http2_get
#[kani::proof]
fn c17_reject_post_without_body() {
    c17_reject_case(2, 2, false, false);
}

/// Phase by menu index: 0 SendLine, 1 SendHeaders(i), 2 SendBody, 3 RecvResponse, 4 RecvBody.
pub(crate) fn mk_state_phase(pk: usize, hi: usize, writer: BodyWriter, reader: Option<BodyReader>) -> BodyState {
    let phase = match pk {
        0 => Phase::SendLine,
        1 => Phase::SendHeaders(hi),
        2 => Phase::SendBody,
        3 => Phase::RecvResponse,
        _ => Phase::RecvBody,
    };
    mk_state(phase, writer, reader)
}

/// A `Call` in type state `S` from primitive arguments (BodyState is private to this module).
pub(crate) fn mk_call_in<S>(pk: usize, hi: usize, writer: BodyWriter, reader: Option<BodyReader>, analyzed: bool) -> Call<S, ()> {
    mk_call(mk_state_phase(pk, hi, writer, reader), analyzed)
}

pub(crate) fn mk_call_real<S>(pk: usize, hi: usize, writer: BodyWriter, reader: Option<BodyReader>, analyzed: bool) -> Call<S, ()> {
    Call {
        request: AmendedRequest::new(Request::new(())),
        analyzed,
        state: mk_state_phase(pk, hi, writer, reader),
        _ph: PhantomData,
    }
}

/// As `mk_call_in` but over a given request.
pub(crate) fn mk_call_req<S>(req: Request<()>, pk: usize, hi: usize, writer: BodyWriter, reader: Option<BodyReader>, analyzed: bool) -> Call<S, ()> {
    Call {
        request: ah::mk_amended(req),
        analyzed,
        state: mk_state_phase(pk, hi, writer, reader),
        _ph: PhantomData,
    }
}
pub(crate) fn writer_of<S>(c: &Call<S, ()>) -> BodyWriter {
    c.state.writer
}

// =====================================================================================
// C02 — line-atomic resumable head writer (small concrete head, symbolic buffer size)
// =====================================================================================

const HEAD: &[u8] = b"GET / HTTP/1.1\r\nhost: a\r\n\r\n";
const LINE_LEN: usize = 16;
const HEAD_LEN: usize = 27;
const OUTW: usize = 32;

/// pk: 0 SendLine, 1 SendHeaders(0), 2 SendBody (head complete)
fn c02_head_writer_case(pk: usize) {
    c02_head_writer_case_ol(pk, None)
}

fn c02_head_writer_case_ol(pk: usize, fixed_ol: Option<usize>) {
    let mut ar = ah::mk_amended(Request::new(()));
    ar.set_header(http::header::HOST, HeaderValue::from_static("a")).unwrap();
    let mut call: Call<WithoutBody, ()> = Call {
        request: ar,
        analyzed: true,
        state: mk_state_phase(pk, 0, bh::mk_writer_none(), None),
        _ph: PhantomData,
    };
    let out0: [u8; OUTW] = kani::any();
    let ol = match fixed_ol {
        Some(v) => v,
        None => any_le(OUTW),
    };
    let mut out = out0;
    let r = call.write(&mut out[..ol]);
    let start = if pk == 0 { 0 } else if pk == 1 { LINE_LEN } else { HEAD_LEN };
    let next_line_end = if pk == 0 { LINE_LEN } else { HEAD_LEN };
    match r {
        Err(e) => {
            assert!(matches!(e, Error::OutputOverflow), "C02/only-output-overflow");
            assert!(pk != 2 && ol < next_line_end - start, "C02/overflow-exactly-when-next-line-does-not-fit");
            assert!(call.state.phase == mk_state_phase(pk, 0, bh::mk_writer_none(), None).phase, "C02/overflow-has-no-side-effect");
            core::mem::forget(e);
        }
        Ok(n) => {
            if pk == 2 {
                assert!(n == 0, "C02/complete-head-emits-nothing-more");
            } else {
                assert!(ol >= next_line_end - start, "C02/overflow-exactly-when-next-line-does-not-fit");
                // whole lines only, as many as fit
                let all = ol >= HEAD_LEN - start;
                let expect_n = if all { HEAD_LEN - start } else { LINE_LEN };
                assert!(n == expect_n, "C02/whole-lines-only-as-many-as-fit");
                let mut i = 0;
                while i < OUTW {
                    if i < n {
                        assert!(out[i] == HEAD[start + i], "C02/head-bytes-exact");
                    }
                    i += 1;
                }
                if all {
                    assert!(call.is_finished(), "C02/head-complete-after-blank-line");
                } else {
                    assert!(!call.is_finished(), "C02/head-not-complete-before-blank-line");
                    assert!(call.state.phase == Phase::SendHeaders(0), "C02/resumes-at-next-header");
                }
            }
        }
    }
    kani::cover!(fixed_ol.is_some() || ol == OUTW, "large-buffer");
    kani::cover!(fixed_ol.is_some() || ol == 0, "empty-buffer");
    core::mem::forget(call);
}

//@ props: C02 C01
//@ tier: off
//@ unwind: 8
//@ unwindset: c02_head_writer_case=34 from_static=4 write_all=4 memcmp=20
//@ timeout: 3600
//@ mem: 40
//@ encodes: Call::<WithoutBody>::write, try_write_prelude, try_write_prelude_part, do_write_send_line, do_write_headers, Writer::try_write rollback, core::fmt (Display of Method / HeaderName, Debug of Version)
//@ vars: concrete: request GET / HTTP/1.1 with the single effective header host: a; phase concrete per harness (SendLine | SendHeaders(0) | head complete). Symbolic: output buffer size 0..=32 and its prior contents
//@ bounds: one request line + one header line (27 bytes); every buffer size from 0 to larger than the whole head
//@ outside: more header lines (the loop body is the same per header), other methods / versions / targets, non-UTF-8 values
//@ clause: each call emits only whole lines, as many as fit, byte-exact; Err(OutputOverflow) without side effect exactly when not even the next line fits; the blank line is emitted together with the last header; once the head is complete further calls emit nothing
#[kani::proof]
fn c02_head_writer_from_line() {
    c02_head_writer_case(0);
}

//@ like: c02_head_writer_from_line
#[kani::proof]
fn c02_head_writer_from_header() {
    c02_head_writer_case(1);
}

//@ like: c02_head_writer_from_line
//@ tier: quick
//@ timeout: 600
//@ mem: 16
#[kani::proof]
fn c02_head_writer_complete() {
    c02_head_writer_case(2);
}

// =====================================================================================
// C07 — outer read loop of the chunked reader, boundary stop (concrete framing, symbolic data)
// =====================================================================================
use crate::chunk::verif_h as kh;

const FR: &[u8; 22] = b"1\r\nA\r\n2\r\nBC\r\n0\r\n\r\nNEXT";

//@ props: C07 C01
//@ tier: off
//@ unwind: 12
//@ unwindset: c07_read_chunked_boundary_stop=26 memcmp=6
//@ timeout: 1500
//@ mem: 24
//@ encodes: Call::<RecvBody>::read, BodyReader::read / read_chunked (outer loop, boundary stop, buffer-full / input-empty exits), Dechunker::parse_input and all handlers
//@ vars: concrete framing `1 CRLF a CRLF 2 CRLF b c CRLF 0 CRLF CRLF NEXT` (data bytes concrete too: a symbolic data byte makes the ';'-search of read_size symbolic and the run does not finish in 25 min); symbolic: output size 0..=4, stop-on-chunk-boundary flag, offered length (whole window or cut after the first chunk)
//@ bounds: this framing (two chunks + terminator + bytes of a next message)
//@ outside: other framings / cut positions (the handlers are covered on all windows <= 6 (8) bytes by c07_handler_*)
//@ clause: one read: the consumed prefix is whole tokens, output = the data bytes consumed, never past the final CRLF, ended iff it was consumed; with boundary stopping no single read returns data from two different chunks; without it a large enough buffer receives all data and the coding is consumed to its last byte
#[kani::proof]
fn c07_read_chunked_boundary_stop() {
    let w = *FR;
    let whole: bool = kani::any();
    let l = if whole { 22 } else { 6 };
    let ol = any_le(4);
    let stop: bool = kani::any();
    let mut out = [0u8; 4];
    let mut call: Call<RecvBody, ()> = mk_call(
        mk_state(Phase::RecvBody, bh::mk_writer_none(), Some(BodyReader::Chunked(crate::chunk::Dechunker::new()))),
        true,
    );
    call.stop_on_chunk_boundary(stop);
    let r = call.read(&w[..l], &mut out[..ol]);
    let (c, o) = match r {
        Ok(v) => v,
        Err(e) => {
            core::mem::forget(e);
            assert!(false, "C07/valid-coding-never-errs");
            return;
        }
    };
    assert!(c <= l && o <= ol, "C12/counts-within-windows");
    // replay the consumed prefix through the reference automaton
    let mut a = kh::A::SizeStart;
    let mut k = 0;
    let mut chunks_with_data = 0;
    let mut fresh_chunk = true;
    let mut i = 0;
    while i < 22 {
        if i < c {
            assert!(a != kh::A::Done, "C07/never-consumes-past-the-final-crlf");
            if a == kh::A::SizeStart {
                fresh_chunk = true;
            }
            let (na, is_data) = kh::a_step(a, w[i]);
            if is_data {
                assert!(k < o && out[k] == w[i], "C07/output-is-exactly-the-chunk-data-in-order");
                k += 1;
                if fresh_chunk {
                    chunks_with_data += 1;
                    fresh_chunk = false;
                }
            }
            a = na;
        }
        i += 1;
    }
    assert!(k == o, "C07/produced-equals-data-bytes-consumed");
    assert!(call.is_ended() == (a == kh::A::Done), "C07/ended-iff-final-crlf-consumed");
    if stop {
        assert!(chunks_with_data <= 1, "C07/boundary-stop-never-mixes-two-chunks");
    }
    if !stop && whole && ol >= 3 {
        assert!(o == 3 && c == 18 && call.is_ended(), "C07/whole-coding-consumed-exactly-to-its-final-crlf");
    }
    if whole && ol >= 1 {
        assert!(o >= 1, "C07/progress-on-data");
    }
    kani::cover!(stop && whole && o == 1 && c == 6, "stopped-on-the-boundary");
    kani::cover!(!stop && whole && o == 3, "both-chunks-in-one-read");
    kani::cover!(!whole, "cut-after-first-chunk");
    core::mem::forget(call);
}

// =====================================================================================
// C01 — split confluence of the length-delimited reader and the sized writer
// =====================================================================================

//@ props: C01 C08
//@ tier: quick
//@ unwind: 4
//@ unwindset: c01_split_confluence_length_reader=10
//@ timeout: 900
//@ encodes: Call::<RecvBody>::read (length-delimited) executed three times: once on the whole window, and split at an arbitrary cut
//@ vars: remaining: any u64; window 8 symbolic bytes, offered length <= 8, cut <= length; output 8 bytes (large enough)
//@ bounds: window <= 8 bytes
//@ outside: output buffers smaller than the window (then each run delivers a prefix: the min-of-three law of c08_call_read_length_step)
//@ clause: presenting a window at once or in two pieces (re-presenting unconsumed bytes) yields the same total consumed, the same bytes and the same final state
#[kani::proof]
fn c01_split_confluence_length_reader() {
    let left: u64 = kani::any();
    let w: [u8; 8] = kani::any();
    let l = any_le(8);
    let cut = any_le(8);
    kani::assume(cut <= l);
    let mk = || -> Call<RecvBody, ()> {
        mk_call(mk_state(Phase::RecvBody, bh::mk_writer_none(), Some(BodyReader::LengthDelimited(left))), true)
    };
    let mut a = mk();
    let mut out_a = [0u8; 8];
    let (ca, oa) = a.read(&w[..l], &mut out_a).unwrap();
    let mut b = mk();
    let mut out_b = [0u8; 8];
    let (c1, o1) = b.read(&w[..cut], &mut out_b).unwrap();
    let (c2, o2) = b.read(&w[c1..l], &mut out_b[o1..]).unwrap();
    assert!(c1 + c2 == ca && o1 + o2 == oa, "C01/split-delivery-consumes-the-same-total");
    let mut i = 0;
    while i < 8 {
        if i < oa {
            assert!(out_a[i] == out_b[i], "C01/split-delivery-yields-the-same-bytes");
        }
        i += 1;
    }
    assert!(a.state.reader == b.state.reader, "C01/split-delivery-ends-in-the-same-state");
    assert!(a.is_ended() == b.is_ended(), "C01/split-delivery-ends-in-the-same-state");
    kani::cover!(cut > 0 && cut < l && c2 > 0, "real-split");
    kani::cover!(ca < l, "stopped-by-length");
    core::mem::forget(a);
    core::mem::forget(b);
}

//@ props: C01 C04
//@ tier: quick
//@ unwind: 4
//@ unwindset: c01_split_confluence_sized_writer=10
//@ timeout: 900
//@ encodes: Call::<WithBody>::write (sized body) executed once on the whole input and split at an arbitrary cut
//@ vars: remaining: any u64; input 8 symbolic bytes, length <= 8 and <= remaining, cut <= length; output 8 bytes
//@ bounds: input <= 8 bytes
//@ outside: output buffers smaller than the input
//@ clause: writing an input at once or in two pieces yields the same total, the same bytes and the same final state
#[kani::proof]
fn c01_split_confluence_sized_writer() {
    let left: u64 = kani::any();
    let w: [u8; 8] = kani::any();
    let l = any_le(8);
    let cut = any_le(8);
    kani::assume(cut <= l && l as u64 <= left);
    let mk = || -> Call<WithBody, ()> { mk_call(mk_state(Phase::SendBody, bh::mk_writer_sized(left, false), None), true) };
    let mut a = mk();
    let mut out_a = [0u8; 8];
    let (ia, oa) = a.write(&w[..l], &mut out_a).unwrap();
    let mut b = mk();
    let mut out_b = [0u8; 8];
    let (i1, o1) = b.write(&w[..cut], &mut out_b).unwrap();
    // an empty second piece is only offered if something is left to say (an empty write is the end signal)
    let (i2, o2) = if i1 < l { b.write(&w[i1..l], &mut out_b[o1..]).unwrap() } else { (0, 0) };
    assert!(i1 + i2 == ia && o1 + o2 == oa, "C01/split-delivery-consumes-the-same-total");
    let mut i = 0;
    while i < 8 {
        if i < oa {
            assert!(out_a[i] == out_b[i], "C01/split-delivery-yields-the-same-bytes");
        }
        i += 1;
    }
    assert!(bh::writer_same(&a.state.writer, &b.state.writer), "C01/split-delivery-ends-in-the-same-state");
    kani::cover!(cut > 0 && cut < l, "real-split");
    core::mem::forget(a);
    core::mem::forget(b);
}

//@ props: C02 C01
//@ tier: off
//@ unwind: 8
//@ unwindset: c02_head_writer_case=34 from_static=4 write_all=4 memcmp=20
//@ timeout: 2400
//@ mem: 24
//@ encodes: Call::<WithoutBody>::write, try_write_prelude, try_write_prelude_part, do_write_send_line, do_write_headers, Writer::try_write rollback, core::fmt (Display of Method / HeaderName, Debug of Version)
//@ vars: concrete: request GET / HTTP/1.1 with the single effective header host: a; resumption point and output buffer size concrete per harness (boundary sizes 15/16 for the request line, 10/11 for the header + blank line, 26/27 for the whole head); symbolic: prior buffer contents
//@ bounds: one request line + one header line (27 bytes); the boundary buffer sizes listed (a symbolic size does not finish in 60 min / 26 GB)
//@ outside: other buffer sizes, more header lines, other methods / versions / targets, non-UTF-8 values
//@ clause: each call emits only whole lines, as many as fit, byte-exact; Err(OutputOverflow) without side effect exactly when not even the next line fits; the blank line is emitted together with the last header
#[kani::proof]
fn c02_head_writer_line_fits_exactly() {
    c02_head_writer_case_ol(0, Some(16));
}
