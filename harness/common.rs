//! Helpers shared by all harness modules (spliced at the crate root as `verif_common`,
//! only under cfg(kani), only in the scratch copy of the repository).
#![allow(dead_code)]

/// Stub for `alloc::fmt::format`: only used by hoot to build the `String` payload of
/// error variants. The variant is still checked by the harnesses, the text is not.
pub(crate) fn noop_format(_args: core::fmt::Arguments<'_>) -> String {
    String::new()
}

/// Stub for `core::slice::memchr::memchr`: plain index loop, identical result.
pub(crate) fn lean_memchr(x: u8, text: &[u8]) -> Option<usize> {
    let mut i = 0;
    while i < text.len() {
        if text[i] == x {
            return Some(i);
        }
        i += 1;
    }
    None
}

/// Draw a symbolic value in `0..=max`.
pub(crate) fn any_le(max: usize) -> usize {
    let v: usize = kani::any();
    kani::assume(v <= max);
    v
}

/// Draw a symbolic index into a menu of `n` entries.
pub(crate) fn any_idx(n: usize) -> usize {
    let v: usize = kani::any();
    kani::assume(v < n);
    v
}

use http::header::{
    AUTHORIZATION, CONNECTION, CONTENT_LENGTH, COOKIE, EXPECT, HOST, LOCATION, TRANSFER_ENCODING,
};
use http::HeaderName;

fn lc(b: u8) -> u8 {
    if b >= b'A' && b <= b'Z' { b + 32 } else { b }
}

fn eq_ic(a: &[u8], b: &[u8]) -> bool {
    if a.len() != b.len() {
        return false;
    }
    let mut i = 0;
    while i < a.len() {
        if lc(a[i]) != lc(b[i]) {
            return false;
        }
        i += 1;
    }
    true
}

/// Stub for http's `<HeaderName as PartialEq<str>>::eq` (a case-insensitive comparison of
/// the header's name with `other`). `StandardHeader::as_str()` is not constant-folded by
/// CBMC, which makes every such comparison unroll a 17-step table-lookup loop on symbolic
/// bytes. For the names hoot compares against, "name equals `other`" is decided instead by
/// `HeaderName == HeaderName` against the corresponding standard constant (which folds);
/// any other string falls back to the byte-wise comparison. Same result as the original.
pub(crate) fn lean_headername_eq_str(a: &HeaderName, other: &str) -> bool {
    let b = other.as_bytes();
    if eq_ic(b, b"host") {
        return *a == HOST;
    }
    if eq_ic(b, b"content-length") {
        return *a == CONTENT_LENGTH;
    }
    if eq_ic(b, b"transfer-encoding") {
        return *a == TRANSFER_ENCODING;
    }
    if eq_ic(b, b"connection") {
        return *a == CONNECTION;
    }
    if eq_ic(b, b"expect") {
        return *a == EXPECT;
    }
    if eq_ic(b, b"location") {
        return *a == LOCATION;
    }
    if eq_ic(b, b"authorization") {
        return *a == AUTHORIZATION;
    }
    if eq_ic(b, b"cookie") {
        return *a == COOKIE;
    }
    eq_ic(a.as_str().as_bytes(), b)
}

/// Stub for `http::HeaderName::as_str`: `StandardHeader::as_str()` costs >1 s of symbolic
/// execution per call and its result is not constant-folded by CBMC. The stub decides the
/// name by `HeaderName == HeaderName` against the standard constants (which folds) and
/// returns the same lower-case string; custom names used by the harness menus are compared
/// likewise. A name outside the table is reported (assert) instead of being guessed.
pub(crate) fn lean_headername_as_str(a: &HeaderName) -> &str {
    if *a == HOST {
        return "host";
    }
    if *a == CONTENT_LENGTH {
        return "content-length";
    }
    if *a == TRANSFER_ENCODING {
        return "transfer-encoding";
    }
    if *a == CONNECTION {
        return "connection";
    }
    if *a == EXPECT {
        return "expect";
    }
    if *a == LOCATION {
        return "location";
    }
    if *a == AUTHORIZATION {
        return "authorization";
    }
    if *a == COOKIE {
        return "cookie";
    }
    if *a == http::header::ACCEPT {
        return "accept";
    }
    if *a == X_NULL {
        return "x-null";
    }
    if *a == X_A {
        return "x-a";
    }
    if *a == X_KEEP {
        return "x-keep";
    }
    assert!(false, "verif-machinery: header name outside the table modelled by lean_headername_as_str");
    ""
}

pub(crate) const X_NULL: HeaderName = HeaderName::from_static("x-null");
pub(crate) const X_A: HeaderName = HeaderName::from_static("x-a");
pub(crate) const X_KEEP: HeaderName = HeaderName::from_static("x-keep");

use http::Method;

/// The nine standard methods, by menu index.
pub(crate) fn method_at(i: usize) -> Method {
    match i {
        0 => Method::GET,
        1 => Method::HEAD,
        2 => Method::POST,
        3 => Method::PUT,
        4 => Method::DELETE,
        5 => Method::CONNECT,
        6 => Method::OPTIONS,
        7 => Method::TRACE,
        _ => Method::PATCH,
    }
}
