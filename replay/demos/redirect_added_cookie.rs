// Demonstration (public API only): headers added to a redirected flow are sent (C16).
use ureq_proto::client::flow::*;
use ureq_proto::http::Request;

#[test]
fn cookie_added_for_the_redirect_target_is_sent() {
    let req = Request::get("http://a.test/x").header("cookie", "old=1").body(()).unwrap();
    let flow = Flow::new(req).unwrap();
    let mut flow = flow.proceed();
    let mut out = vec![0u8; 1024];
    flow.write(&mut out).unwrap();
    let mut flow = match flow.proceed().unwrap().unwrap() {
        SendRequestResult::RecvResponse(f) => f,
        _ => panic!(),
    };
    let input = b"HTTP/1.1 302 Found\r\nLocation: /y\r\nContent-Length: 0\r\n\r\n";
    flow.try_response(input).unwrap();
    let mut flow = match flow.proceed().unwrap() {
        RecvResponseResult::Redirect(f) => f,
        _ => panic!(),
    };
    let mut next = flow.as_new_flow(RedirectAuthHeaders::Never).unwrap().unwrap();
    next.header("cookie", "new=2").unwrap();
    let mut next = next.proceed();
    let n = next.write(&mut out).unwrap();
    let head = std::str::from_utf8(&out[..n]).unwrap();
    assert!(head.contains("cookie: new=2\r\n"), "{head}");
    assert!(!head.contains("old=1"), "{head}");
}
