"""Native replay of a solver counterexample.

The concrete values the solver chose for every `kani::any()` are fed back, in order, to the
*same harness function* compiled as an ordinary Rust test (Kani's concrete-playback runtime:
`kani::any()` pops the recorded bytes, `kani::assume` and `assert!` are ordinary assertions,
`#[kani::stub]` attributes are ignored so the REAL functions run). The counterexample counts
as reproduced only if that native run panics in the harness's own assertion or inside hoot code.
"""
import os
import re

from .common import ENV, Inconclusive, log, run, scratch_dir

MISALIGNED = ("Not enough det vals", "bytes in the following det vals vec",
              "kani::assume should always hold")
LEFTOVER = "there were still these concrete values left over"


def _kani_home():
    import glob
    c = sorted(glob.glob(os.path.expanduser("~/.kani/kani-*")))
    if not c:
        raise Inconclusive("kani home not found under ~/.kani")
    return c[-1]


def test_source(harness_name, vals, tag):
    lines = ["", "#[test]", "fn verif_replay_%s_%s() {" % (harness_name, tag),
             "    let concrete_vals: Vec<Vec<u8>> = vec!["]
    for v in vals:
        lines.append("        vec![%s]," % ", ".join(str(b) for b in v))
    lines += ["    ];", "    kani::concrete_playback_run(concrete_vals, %s);" % harness_name, "}", ""]
    return "\n".join(lines)


def run_native(repo_copy, harness, vals, tag="cex", release=False):
    """Append the replay test to the scratch copy of the harness module and run it.
    Returns dict(outcome=reproduced|not_reproduced|misaligned|build_error, message=...)."""
    hfile = os.path.join(repo_copy, "verif_h", harness.module + "_h.rs")
    src = test_source(harness.name, vals, tag)
    with open(hfile, "a") as fh:
        fh.write(src)
    env = dict(ENV)
    env["CARGO_TARGET_DIR"] = os.path.join(scratch_dir(), "target-playback")
    env["RUST_BACKTRACE"] = "0"
    # The command `cargo kani playback -Z concrete-playback` runs (seen with --verbose),
    # issued directly so that the release profile can be replayed too. In the release
    # replay overflow checks are left at the profile default (off), as in a user's build.
    kani_home = _kani_home()
    flags = []
    if not release:
        flags += ["-C", "overflow-checks=on"]
    flags += ["-Z", "unstable-options", "-Z", "trim-diagnostic-paths=no", "-Z", "human_readable_cgu_names",
              "-Z", "always-encode-mir", "--cfg=kani", "-Z", "crate-attr=feature(register_tool)",
              "-Z", "crate-attr=register_tool(kanitool)", "--force-warn", "unstable_features",
              "--sysroot", kani_home + "/playback", "-L", kani_home + "/playback/lib",
              "--extern", "force:kani",
              "--extern", "noprelude,nounused:std=" + kani_home + "/playback/lib/libstd.rlib"]
    env["CARGO_ENCODED_RUSTFLAGS"] = "\x1f".join(flags)
    env["RUSTC"] = kani_home + "/bin/kani-compiler"
    env["CARGO_TERM_PROGRESS_WHEN"] = "never"
    cmd = [kani_home + "/toolchain/bin/cargo", "test", "--lib", "--target", "x86_64-unknown-linux-gnu",
           "-Zhost-config", "-Ztarget-applies-to-host", '--config=host.rustflags=["--cfg=kani_host"]',
           "--manifest-path", os.path.join(repo_copy, "Cargo.toml")]
    if release:
        cmd.append("--release")
    cmd += ["--", "verif_replay_%s_%s" % (harness.name, tag), "--nocapture", "--test-threads", "1"]
    rc, out, wall = run(cmd, cwd=repo_copy, env=env, timeout=1200)
    out = out or ""
    res = {"cmd": " ".join(cmd), "rc": rc, "wall_s": round(wall, 1), "profile": "release" if release else "dev"}
    m = re.search(r"panicked at ([^\n]*)\n([^\n]*)", out)
    msg = (m.group(1) + " | " + m.group(2)).strip() if m else ""
    res["message"] = msg[:400]
    ran = re.search(r"running (\d+) test", out)
    if rc == -9:
        res["outcome"] = "build_error"
        res["message"] = "native replay timed out"
    elif "test result: ok" in out and ran and "1 passed" in out:
        res["outcome"] = "not_reproduced"
    elif "test result: FAILED" in out:
        if any(s in out for s in MISALIGNED):
            res["outcome"] = "misaligned"
        elif LEFTOVER in out:
            res["outcome"] = "not_reproduced"
        else:
            res["outcome"] = "reproduced"
    else:
        res["outcome"] = "build_error"
        res["message"] = "\n".join(out.splitlines()[-25:])
    return res, src
