"""Harness annotations.

Every harness in /verif/harness/*_h.rs carries its own metadata as `//@ key: value`
comment lines directly above its `#[kani::proof]` attribute:

  //@ props: C04 C01            properties this harness serves
  //@ tier: quick|thorough|canary   quick harnesses also run in the thorough tier;
  //                               a canary is a thorough-tier harness that MUST fail
  //@ unwind: 3                  default bound for loops not matched by unwindset
  //@ unwindset: RE=N RE=Q|T     per-loop bounds; RE is matched against
  //                               "<loop id> <function> <file>"; Q|T = quick|thorough
  //@ timeout: 600               wall-clock cap for the cbmc run (seconds)
  //@ mem: 16                    address-space cap (GB)
  //@ encodes / vars / bounds / outside / clause: free text copied into the evidence
"""
import glob
import os
import re

from .common import HARNESS_DIR

KEYS = {"like", "cbmc", "props", "tier", "unwind", "unwindset", "timeout", "mem", "encodes", "vars",
        "bounds", "outside", "clause", "stubs_note", "expect"}


class Harness:
    def __init__(self, name, module, meta, line):
        self.name = name
        self.module = module          # e.g. "body"
        self.line = line
        self.props = meta.get("props", "").split()
        self.tier = meta.get("tier", "quick").strip()
        self.unwind = meta.get("unwind", "3").strip()
        self.unwindset = meta.get("unwindset", "").split()
        self.timeout = meta.get("timeout", "900").strip()
        self.mem = meta.get("mem", "16").strip()
        self.text = {k: meta.get(k, "").strip() for k in
                     ("encodes", "vars", "bounds", "outside", "clause", "stubs_note")}
        self.expect = meta.get("expect", "").strip()
        self.cbmc_extra = meta.get("cbmc", "").split()

    @property
    def is_canary(self):
        return self.tier == "canary"

    def in_tier(self, tier):
        if self.tier == "off":
            return False
        if tier == "quick":
            return self.tier == "quick"
        return True

    @staticmethod
    def _tiered(val, tier):
        if "|" in val:
            q, t = val.split("|", 1)
            return t if tier == "thorough" else q
        return val

    def unwind_for(self, tier):
        return int(self._tiered(self.unwind, tier))

    def timeout_for(self, tier):
        return int(self._tiered(self.timeout, tier))

    def mem_for(self, tier):
        return int(self._tiered(self.mem, tier))

    def rules_for(self, tier):
        rules = []
        for item in self.unwindset:
            if "=" not in item:
                continue
            rx, n = item.rsplit("=", 1)
            rules.append((re.compile(rx), int(self._tiered(n, tier))))
        return rules


def load_harnesses():
    res = []
    metas = {}
    for path in sorted(glob.glob(os.path.join(HARNESS_DIR, "*_h.rs"))):
        module = os.path.basename(path)[:-len("_h.rs")]
        meta = {}
        last_key = None
        pending_proof = False
        with open(path) as fh:
            for ln, line in enumerate(fh, 1):
                s = line.strip()
                if s.startswith("//@"):
                    body = s[3:].strip()
                    m = re.match(r"([a-z_]+):\s*(.*)$", body)
                    if m and m.group(1) in KEYS:
                        last_key = m.group(1)
                        meta[last_key] = (meta.get(last_key, "") + " " + m.group(2)).strip()
                    elif last_key:
                        meta[last_key] += " " + body
                    continue
                if s.startswith("#[kani::proof"):
                    pending_proof = True
                    continue
                m = re.match(r"(?:pub(?:\([a-z]+\))?\s+)?fn\s+([A-Za-z0-9_]+)\s*\(", s)
                if m and pending_proof:
                    if "like" in meta:
                        base = metas.get(meta["like"].strip())
                        if base is None:
                            raise SystemExit("%s: `like: %s` refers to an unknown (later?) harness" % (m.group(1), meta["like"]))
                        merged = dict(base)
                        merged.update({k: v for k, v in meta.items() if k != "like"})
                        meta = merged
                    metas[m.group(1)] = dict(meta)
                    res.append(Harness(m.group(1), module, meta, ln))
                    meta = {}
                    last_key = None
                    pending_proof = False
                elif s and not s.startswith("#[") and not s.startswith("//"):
                    if not pending_proof:
                        meta = {}
                        last_key = None
    names = [h.name for h in res]
    dup = {n for n in names if names.count(n) > 1}
    if dup:
        raise SystemExit("duplicate harness names: %s" % sorted(dup))
    return res


def select(prop, tier, only=None):
    hs = [h for h in load_harnesses() if prop in h.props and h.in_tier(tier)]
    if only:
        rx = re.compile(only)
        hs = [h for h in hs if rx.search(h.name)]
    return hs
