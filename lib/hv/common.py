"""Shared paths, scratch handling and small helpers for the hoot verification driver."""
import atexit
import json
import os
import shutil
import subprocess
import sys
import time

VERIF = os.path.dirname(os.path.dirname(os.path.dirname(os.path.abspath(__file__))))
REPO = os.environ.get("VERIF_REPO", "/repo")
HARNESS_DIR = os.path.join(VERIF, "harness")
EVIDENCE_DIR = os.environ.get("VERIF_EVIDENCE_DIR") or os.path.join(VERIF, "evidence")
REPLAY_DIR = os.path.join(EVIDENCE_DIR, "replay")
KNOWN_FINDINGS = os.path.join(VERIF, "known_findings.json")

# Source file each harness module is spliced into (as a child module, so that it can
# reach the private items of that file).
SPLICE = {
    "util": "src/util.rs",
    "ext": "src/ext.rs",
    "body": "src/body.rs",
    "chunk": "src/chunk.rs",
    "parser": "src/parser.rs",
    "amended": "src/client/amended.rs",
    "call": "src/client/call.rs",
    "holder": "src/client/holder.rs",
    "flow": "src/client/flow.rs",
}

ENV = dict(os.environ)
ENV["CARGO_NET_OFFLINE"] = "true"
ENV.setdefault("CARGO_TERM_COLOR", "never")


def log(*a):
    print("[verif]", *a, file=sys.stderr, flush=True)


class Inconclusive(Exception):
    """The machinery could not decide (timeout, OOM, compile error, non-reproducing cex)."""


_scratch = None


def scratch_dir():
    global _scratch
    if _scratch is None:
        base = os.environ.get("VERIF_SCRATCH") or os.environ.get("TMPDIR") or "/tmp"
        _scratch = os.path.join(base, "hoot-verif.%d" % os.getpid())
        if os.path.exists(_scratch):
            shutil.rmtree(_scratch)
        os.makedirs(_scratch)
        if not os.environ.get("VERIF_KEEP"):
            atexit.register(lambda: shutil.rmtree(_scratch, ignore_errors=True))
    return _scratch


def run(cmd, cwd=None, timeout=None, env=None, out=None):
    """Run a command, return (rc, stdout+stderr text). rc = -9 on timeout."""
    t0 = time.time()
    try:
        if out is not None:
            with open(out, "wb") as fh:
                p = subprocess.run(cmd, cwd=cwd, env=env or ENV, stdout=fh,
                                   stderr=subprocess.STDOUT, timeout=timeout)
            return p.returncode, None, time.time() - t0
        p = subprocess.run(cmd, cwd=cwd, env=env or ENV, stdout=subprocess.PIPE,
                           stderr=subprocess.STDOUT, timeout=timeout)
        return p.returncode, p.stdout.decode("utf-8", "replace"), time.time() - t0
    except subprocess.TimeoutExpired as e:
        txt = (e.stdout or b"").decode("utf-8", "replace") if out is None else None
        return -9, txt, time.time() - t0


def repo_fingerprint():
    """HEAD + dirty flag of /repo, for the evidence file."""
    rc, head, _ = run(["git", "-C", REPO, "rev-parse", "--short", "HEAD"])
    rc2, st, _ = run(["git", "-C", REPO, "status", "--porcelain", "--", "src", "Cargo.toml"])
    return {"head": (head or "").strip(), "dirty": bool((st or "").strip())}


def write_json(path, obj):
    os.makedirs(os.path.dirname(path), exist_ok=True)
    tmp = path + ".tmp"
    with open(tmp, "w") as fh:
        json.dump(obj, fh, indent=1, sort_keys=False)
        fh.write("\n")
    os.replace(tmp, path)
