//! Native oracle for engine E2: prints `n -> Flow<SendBody>::calculate_max_input(n)` for a
//! chunked POST flow driven through the PUBLIC API only.
use ureq_proto::client::flow::{Flow, SendRequestResult};
use ureq_proto::http::Request;

fn main() {
    for a in std::env::args().skip(1) {
        let n: usize = a.parse().expect("usize argument");
        let r = std::panic::catch_unwind(|| {
            let req = Request::post("http://a.test/").body(()).unwrap();
            let flow = Flow::new(req).unwrap();
            let mut flow = flow.proceed();
            let mut out = vec![0u8; 1024];
            flow.write(&mut out).unwrap();
            let mut flow = match flow.proceed().unwrap().unwrap() {
                SendRequestResult::SendBody(f) => f,
                _ => panic!("expected SendBody"),
            };
            assert!(flow.is_chunked());
            flow.calculate_max_input(n)
        });
        match r {
            Ok(v) => println!("{} -> {}", n, v),
            Err(_) => println!("{} -> panic", n),
        }
    }
}
