// Demonstration (public API only): Flow<SendRequest>::write() after the head is complete (C02).
use ureq_proto::client::flow::*;
use ureq_proto::http::Request;

#[test]
fn write_after_complete_head_emits_nothing() {
    let req = Request::post("http://a.test/x").body(()).unwrap();
    let flow = Flow::new(req).unwrap();
    let mut flow = flow.proceed();
    let mut out = vec![0u8; 1024];
    let n = flow.write(&mut out).unwrap();
    assert!(n > 0);
    assert!(flow.can_proceed());
    // the head is complete: a further call must emit nothing (it emitted "0\r\n\r\n" before the fix)
    let n2 = flow.write(&mut out).unwrap();
    assert_eq!(n2, 0);
    let mut flow = match flow.proceed().unwrap().unwrap() {
        SendRequestResult::SendBody(f) => f,
        _ => panic!(),
    };
    // and the body must not have been finished behind the caller's back
    assert!(!flow.can_proceed());
    let (i, o) = flow.write(b"hi", &mut out).unwrap();
    assert_eq!((i, o), (2, 7));
}
