//! Harnesses for src/body.rs (child module of `body`: sees BodyWriter/BodyReader privates).
#![allow(dead_code, unused_imports)]
use super::*;
use crate::verif_common::*;
use crate::verif_tier::THOROUGH;

// ---------------------------------------------------------------- state constructors
// Representation invariant of BodyWriter = exact image of the constructors + write():
//   {None, ended=true} | {Chunked, ended in {f,t}} | {Sized(left), ended} with ended => left == 0

pub(crate) fn mk_writer_none() -> BodyWriter {
    BodyWriter { mode: SenderMode::None, ended: true }
}
pub(crate) fn mk_writer_chunked(ended: bool) -> BodyWriter {
    BodyWriter { mode: SenderMode::Chunked, ended }
}
pub(crate) fn mk_writer_sized(left: u64, ended: bool) -> BodyWriter {
    BodyWriter { mode: SenderMode::Sized(left), ended }
}
/// Arbitrary sized writer satisfying the invariant.
pub(crate) fn any_writer_sized() -> BodyWriter {
    let left: u64 = kani::any();
    let ended: bool = kani::any();
    kani::assume(!ended || left == 0);
    mk_writer_sized(left, ended)
}
pub(crate) fn writer_left(w: &BodyWriter) -> Option<u64> {
    match w.mode {
        SenderMode::Sized(v) => Some(v),
        _ => None,
    }
}
pub(crate) fn writer_is_none(w: &BodyWriter) -> bool {
    matches!(w.mode, SenderMode::None)
}
pub(crate) fn writer_same(a: &BodyWriter, b: &BodyWriter) -> bool {
    let m = match (a.mode, b.mode) {
        (SenderMode::None, SenderMode::None) => true,
        (SenderMode::Chunked, SenderMode::Chunked) => true,
        (SenderMode::Sized(x), SenderMode::Sized(y)) => x == y,
        _ => false,
    };
    m && a.ended == b.ended
}

const W04: usize = if THOROUGH { 32 } else { 16 };

//@ props: C04 C01 C19
//@ tier: quick
//@ unwind: 4
//@ unwindset: c04_writer_sized_step=18|34
//@ timeout: 600
//@ encodes: BodyWriter::write (Sized arm), Writer::try_write, Cursor::write, write_all
//@ vars: left: any u64; ended: bool (RI: ended => left==0); input 16 symbolic bytes, in<=16; out buffer 16 symbolic bytes, out<=16
//@ bounds: slices <= 16 bytes (32 in the thorough tier); left unbounded (full u64)
//@ outside: slices longer than 16 bytes (only min() and one memcpy depend on the length)
//@ clause: k=min(in,out,left) consumed==produced; out[..k]==in[..k]; bytes beyond k untouched; left'=left-k; ended' <=> left'==0
#[kani::proof]
fn c04_writer_sized_step() {
    let left: u64 = kani::any();
    let inp: [u8; W04] = kani::any();
    let out0: [u8; W04] = kani::any();
    let il = any_le(W04);
    let ol = any_le(W04);
    // precondition enforced by Call::write before delegating (checked separately in call_h)
    kani::assume(il as u64 <= left);
    let mut bw = mk_writer_sized(left, false);
    let mut out = out0;
    let n = {
        let mut w = Writer::new(&mut out[..ol]);
        let n = bw.write(&inp[..il], &mut w);
        let produced = w.len();
        core::mem::forget(w);
        assert!(produced == n, "C04/consumed-equals-produced");
        n
    };
    let left_us = if left > usize::MAX as u64 { usize::MAX } else { left as usize };
    let k = il.min(ol).min(left_us);
    assert!(n == k, "C04/moves-min-of-three");
    let mut i = 0;
    while i < W04 {
        if i < k {
            assert!(out[i] == inp[i], "C04/bytes-verbatim");
        } else {
            assert!(out[i] == out0[i], "C04/beyond-k-untouched");
        }
        i += 1;
    }
    assert!(writer_left(&bw) == Some(left - k as u64), "C04/countdown-exact");
    assert!(bw.is_ended() == (left - k as u64 == 0), "C04/finished-iff-zero-left");
    // C19 (sized): progress whenever possible
    if il >= 1 && ol >= 1 && left >= 1 {
        assert!(n >= 1, "C19/sized-progress");
    }
    kani::cover!(n == 0 && il > 0, "refused-by-zero-space");
    kani::cover!(n > 0 && n < il, "partial");
    kani::cover!(bw.is_ended() && n > 0, "finishing-write");
    kani::cover!(left > u32::MAX as u64, "huge-left");
    kani::cover!(left == 0 && bw.is_ended(), "N-zero-finishes-on-empty-write");
}

//@ props: C04
//@ tier: quick
//@ unwind: 3
//@ timeout: 300
//@ encodes: BodyWriter::consume_direct_write
//@ vars: left: any u64; amount: any usize with amount<=left (guard checked at Call level)
//@ bounds: none (full 64-bit ranges)
//@ outside: -
//@ clause: left'=left-amount; ended' <=> left'==0
#[kani::proof]
fn c04_writer_direct_step() {
    let left: u64 = kani::any();
    let amount: usize = kani::any();
    kani::assume(amount as u64 <= left);
    let mut bw = mk_writer_sized(left, false);
    bw.consume_direct_write(amount);
    assert!(writer_left(&bw) == Some(left - amount as u64), "C04/direct-countdown-exact");
    assert!(bw.is_ended() == (left == amount as u64), "C04/direct-finished-iff-zero-left");
    kani::cover!(bw.is_ended(), "direct-finishes");
    kani::cover!(!bw.is_ended() && amount > 0, "direct-partial");
}

// =====================================================================================
// C03 / C18 / C19 — chunked request body writer
// =====================================================================================
use std::sync::atomic::{AtomicUsize, Ordering};

/// Number of hex digits of `t` (no leading zeros; 0 -> 1).
pub(crate) fn hexlen(t: usize) -> usize {
    if t < 0x10 {
        1
    } else if t < 0x100 {
        2
    } else if t < 0x1000 {
        3
    } else if t < 0x1_0000 {
        4
    } else if t < 0x10_0000 {
        5
    } else if t < 0x100_0000 {
        6
    } else if t < 0x1000_0000 {
        7
    } else if t < 0x1_0000_0000 {
        8
    } else {
        16
    }
}

/// Wire size of one chunk carrying `t` data bytes: `hex(t) CRLF data CRLF`.
pub(crate) fn chunk_wire(t: usize) -> usize {
    t + hexlen(t) + 4
}

/// Declarative contract for ONE chunk (from the property text, not from the code):
/// `t` is the number of data bytes of the chunk emitted for `inlen` offered bytes into
/// `avail` free bytes with chunks capped at `max_chunk`; 0 = no chunk.
///   * a chunk is never empty and never exceeds the offer or the cap        (C03)
///   * it fits                                                              (C03)
///   * it is the largest such chunk: either everything offered (up to the cap) went in,
///     or one more byte would not have fit                                  (C18/C19)
///   * no chunk at all only if not even a 1-byte chunk (6 bytes) fits       (C19)
pub(crate) fn chunk_spec(t: usize, inlen: usize, avail: usize, max_chunk: usize) -> bool {
    let m = if inlen < max_chunk { inlen } else { max_chunk };
    if t == 0 {
        return m == 0 || avail < 6;
    }
    t <= m && chunk_wire(t) <= avail && (t == m || chunk_wire(t + 1) > avail)
}

static G_CHUNKS: AtomicUsize = AtomicUsize::new(0);
static G_DATA: AtomicUsize = AtomicUsize::new(0);
static G_WIRE: AtomicUsize = AtomicUsize::new(0);

/// Contract stub for `write_chunk` used by the composite harnesses: havoc constrained by
/// `chunk_spec`; advances the cursor by the wire size (content is the lemma's business).
/// The lemma harnesses below prove the real `write_chunk` satisfies the same contract.
pub(crate) fn p_write_chunk(input: &[u8], input_used: &mut usize, w: &mut Writer, max_chunk: usize) -> bool {
    let avail = w.available();
    let t: usize = kani::any();
    kani::assume(chunk_spec(t, input.len(), avail, max_chunk));
    if t == 0 {
        return false;
    }
    let pos = w.0.position();
    w.0.set_position(pos + chunk_wire(t) as u64);
    *input_used += t;
    G_CHUNKS.fetch_add(1, Ordering::Relaxed);
    G_DATA.fetch_add(t, Ordering::Relaxed);
    G_WIRE.fetch_add(chunk_wire(t), Ordering::Relaxed);
    input.len() > t
}

const NBIG: usize = 10300;

/// Count abstraction of `<Writer as io::Write>::write` (= `Cursor<&mut [u8]>::write`):
/// advances the cursor by min(len, remaining) WITHOUT copying the bytes. Used only by the
/// count lemmas on 10 KB buffers, where the symbolic-length memcpy exhausts memory; the
/// byte lemmas on small buffers keep the real writer.
pub(crate) fn p_writer_write_counts<'a>(w: &mut Writer<'a>, buf: &[u8]) -> std::io::Result<usize>
where
    'a: 'a,
{
    let pos = w.0.position();
    let rem = w.0.get_ref().len() - pos as usize;
    let amt = if buf.len() < rem { buf.len() } else { rem };
    w.0.set_position(pos + amt as u64);
    Ok(amt)
}

fn hexval(c: u8) -> Option<usize> {
    match c {
        b'0'..=b'9' => Some((c - b'0') as usize),
        b'a'..=b'f' => Some((c - b'a') as usize + 10),
        _ => None,
    }
}

//@ props: C03 C18 C19
//@ tier: quick
//@ unwind: 7
//@ unwindset: c03_lemma_write_chunk_counts=8
//@ timeout: 1500
//@ mem: 24
//@ encodes: body::write_chunk (real, incl. core::fmt hex formatting of the size line and write_all), Writer::try_write rollback
//@ stubs_note: <Writer as io::Write>::write replaced by its count abstraction (cursor advance without memcpy)
//@ vars: in: 1..=10300 (crosses DEFAULT_CHUNK_SIZE 10240); out: 0..=10300; payload concrete zeros; cursor at 0; max_chunk = DEFAULT_CHUNK_SIZE
//@ bounds: in,out <= 10300; payload content not symbolic here (see c03_lemma_write_chunk_bytes)
//@ outside: buffers above 10300 bytes for a single chunk (a chunk never exceeds 10240+8)
//@ clause: real write_chunk == chunk_spec: non-empty, fits, maximal, progress whenever 6 bytes are free; wire size = hexlen(t)+t+4; failure leaves cursor and input_used untouched; returns more == (chunk emitted && input left)
#[kani::proof]
#[kani::stub(<Writer<'_> as std::io::Write>::write, p_writer_write_counts)]
fn c03_lemma_write_chunk_counts() {
    let il: usize = kani::any();
    let ol: usize = kani::any();
    kani::assume(il >= 1 && il <= NBIG);
    kani::assume(ol <= NBIG);
    let input = [0u8; NBIG];
    let mut out = [0u8; NBIG];
    let mut used: usize = 0;
    let (more, produced) = {
        let mut w = Writer::new(&mut out[..ol]);
        let more = write_chunk(&input[..il], &mut used, &mut w, DEFAULT_CHUNK_SIZE);
        let p = w.len();
        core::mem::forget(w);
        (more, p)
    };
    let t = used;
    assert!(chunk_spec(t, il, ol, DEFAULT_CHUNK_SIZE) || t == 0 || t > il.min(DEFAULT_CHUNK_SIZE) || chunk_wire(t) > ol
            || chunk_wire(t + 1) <= ol, "C03/lemma-self-check");
    if t == 0 {
        assert!(produced == 0, "C03/no-empty-chunk-and-failure-emits-nothing");
        assert!(ol < 6, "C19/chunk-progress-when-six-bytes-free");
        assert!(!more, "C03/no-more-after-failure");
    } else {
        assert!(t <= il && t <= DEFAULT_CHUNK_SIZE, "C03/chunk-within-offer-and-cap");
        assert!(produced == chunk_wire(t), "C03/chunk-wire-size");
        assert!(produced <= ol, "C03/chunk-fits");
        assert!(t == il.min(DEFAULT_CHUNK_SIZE) || chunk_wire(t + 1) > ol, "C18/chunk-maximal");
        assert!(more == (il > t), "C03/more-iff-input-left");
        // (wire content is checked by c03_lemma_write_chunk_bytes; here the writer is count-abstracted)
    }
    kani::cover!(t == DEFAULT_CHUNK_SIZE && more, "full-chunk-and-more");
    kani::cover!(t > 0 && t < il && t < DEFAULT_CHUNK_SIZE, "chunk-limited-by-space");
    kani::cover!(t == 0, "no-room");
    kani::cover!(t == 15 && ol == 20, "hex-digit-boundary-15");
    kani::cover!(t == 16, "two-digit-size");
    kani::cover!(t == 4096, "four-digit-size");
}

const WB: usize = if THOROUGH { 18 } else { 8 };
const OB: usize = WB + 6;
const PB: usize = if THOROUGH { 3 } else { 1 };

//@ props: C03 C01 C12
//@ tier: quick
//@ unwind: 7
//@ unwindset: c03_lemma_write_chunk_bytes=20|32
//@ timeout: 900|2400
//@ mem: 24
//@ encodes: body::write_chunk (real, real Writer/Cursor/fmt), Writer::try_write rollback
//@ vars: payload WB symbolic bytes (incl. CR/LF), in: 1..=WB; out: 0..=WB+6 behind a prefix p<=PB of already-written bytes; max_chunk: 1..=WB symbolic; WB=8,PB=1 quick / WB=18,PB=3 thorough
//@ bounds: quick: chunks of 1..=8 bytes (one-digit size lines); thorough: 1..=18 bytes (one- and two-digit size lines)
//@ outside: wire content of chunks with 3- and 4-digit size lines (their counts are covered by c03_lemma_write_chunk_counts)
//@ clause: emitted bytes are exactly lower-hex(t) CRLF payload[..t] CRLF with t per chunk_spec; earlier output untouched; failure emits nothing
#[kani::proof]
fn c03_lemma_write_chunk_bytes() {
    let payload: [u8; WB] = kani::any();
    let out0: [u8; OB + PB] = kani::any();
    let il: usize = kani::any();
    kani::assume(il >= 1 && il <= WB);
    let p = any_le(PB);
    let ol = any_le(OB);
    let max_chunk: usize = kani::any();
    kani::assume(max_chunk >= 1 && max_chunk <= WB);
    let mut out = out0;
    let mut used: usize = 0;
    let (more, end) = {
        let mut w = Writer::new(&mut out[..p + ol]);
        w.0.set_position(p as u64);
        let more = write_chunk(&payload[..il], &mut used, &mut w, max_chunk);
        let e = w.len();
        core::mem::forget(w);
        (more, e)
    };
    let t = used;
    assert!(chunk_spec(t, il, ol, max_chunk), "C03/chunk-spec");
    assert!(more == (t > 0 && il > t), "C03/more-iff-input-left");
    let wire = if t == 0 { 0 } else { chunk_wire(t) };
    assert!(end == p + wire, "C03/chunk-wire-size");
    let h = hexlen(t);
    // expected wire image of the emitted region (bytes behind `end` are not output)
    let mut i = 0;
    while i < OB + PB {
        if i < p {
            assert!(out[i] == out0[i], "C03/earlier-output-untouched");
        } else if i < p + wire {
            let k = i - p;
            let exp = if k < h {
                // lower-hex digit k of t (t <= 18 => at most two digits)
                let d = if h == 2 && k == 0 { t >> 4 } else { t & 0xF };
                if d < 10 { b'0' + d as u8 } else { b'a' + (d as u8 - 10) }
            } else if k == h {
                b'\r'
            } else if k == h + 1 {
                b'\n'
            } else if k < h + 2 + t {
                payload[k - h - 2]
            } else if k == h + 2 + t {
                b'\r'
            } else {
                b'\n'
            };
            assert!(out[i] == exp, "C03/chunk-wire-image");
        }
        i += 1;
    }
    kani::cover!(t == 0 && ol == 5, "five-spare-bytes");
    kani::cover!(!THOROUGH || t >= 16, "two-digit-size-line");
    kani::cover!(t > 0 && t < il && t < max_chunk, "limited-by-space");
    kani::cover!(t == max_chunk && more, "limited-by-cap");
    kani::cover!(t == il && t < max_chunk, "whole-input");
}

// ---------------------------------------------------------------- composites (write_chunk by contract)

pub(crate) fn ghost_reset() {
    G_CHUNKS.store(0, Ordering::Relaxed);
    G_DATA.store(0, Ordering::Relaxed);
    G_WIRE.store(0, Ordering::Relaxed);
}
pub(crate) fn ghost() -> (usize, usize, usize) {
    (G_CHUNKS.load(Ordering::Relaxed), G_DATA.load(Ordering::Relaxed), G_WIRE.load(Ordering::Relaxed))
}

pub(crate) const NCOMP: usize = 3 * DEFAULT_CHUNK_AND_OVERHEAD + 64;

/// Sum of the advertised formula's assumptions, restated: max input for `n` output bytes.
pub(crate) fn spec_max_input_lower_bound(inlen: usize, out: usize) -> usize {
    let m = calculate_max_input(out);
    if inlen < m { inlen } else { m }
}

//@ props: C03 C18 C19 C01
//@ tier: quick
//@ unwind: 6
//@ unwindset: write_all=3
//@ timeout: 900
//@ encodes: BodyWriter::write (Chunked arm: chunk loop, terminator, finished flag), BodyWriter::finish, body::calculate_max_input
//@ stubs_note: body::write_chunk replaced by havoc constrained by chunk_spec (proven for the real function by c03_lemma_write_chunk_counts/_bytes in this run); <Writer as io::Write>::write count-abstracted (terminator bytes: c03_finish_step_bytes)
//@ vars: ended: bool; in: 0..=30808; out: 0..=30808 (zero-filled buffers; contents are the lemma's business)
//@ bounds: in,out <= 3*10248+64 (up to 4 chunks per call)
//@ outside: more than 4 chunks in a single write (the loop body is identical per chunk)
//@ clause: non-empty input: only whole non-empty chunks, consumed = sum of chunk data, produced = sum of chunk wire sizes, no terminator, not finished; consumed >= 1 when 6 bytes free; consumed >= min(in, advertised max); advertised max consumed completely. Empty input: exactly 0 CRLF CRLF iff 5 bytes free, finished iff emitted; once finished nothing more is emitted.
#[kani::proof]
#[kani::stub(write_chunk, p_write_chunk)]
#[kani::stub(<Writer<'_> as std::io::Write>::write, p_writer_write_counts)]
fn c03_composite_chunked_write() {
    let ended: bool = kani::any();
    let il = any_le(NCOMP);
    let ol = any_le(NCOMP);
    // non-empty write after the end is refused by Call::write before reaching the writer
    kani::assume(!(ended && il > 0));
    let input = [0u8; NCOMP];
    let mut out = [0u8; NCOMP];
    let mut bw = mk_writer_chunked(ended);
    ghost_reset();
    let (n, produced) = {
        let mut w = Writer::new(&mut out[..ol]);
        let n = bw.write(&input[..il], &mut w);
        let p = w.len();
        core::mem::forget(w);
        (n, p)
    };
    let (chunks, data, wire) = ghost();
    if il > 0 {
        assert!(n == data, "C03/consumed-equals-sum-of-chunk-data");
        assert!(produced == wire, "C03/only-whole-chunks-no-terminator-with-input");
        assert!(n <= il, "C12/counts-within-windows");
        assert!(!bw.is_ended(), "C03/not-finished-by-data-write");
        if ol >= 6 {
            assert!(n >= 1, "C19/progress-when-six-bytes-free");
        }
        assert!(n >= spec_max_input_lower_bound(il, ol), "C19/at-least-advertised-max");
        if il == calculate_max_input(ol) {
            assert!(n == il, "C18/advertised-max-fits");
        }
        kani::cover!(chunks == 4, "four-chunks");
        kani::cover!(chunks == 2 && n < il, "two-chunks-then-full");
        kani::cover!(n == 0, "no-room");
        kani::cover!(il == calculate_max_input(ol) && il > 2 * DEFAULT_CHUNK_SIZE, "max-input-multi-chunk");
    } else {
        assert!(n == 0 && chunks == 0, "C03/empty-write-consumes-nothing");
        if ended {
            assert!(produced == 0, "C03/terminator-exactly-once");
            assert!(bw.is_ended(), "C03/finished-is-stable");
        } else {
            assert!(produced == if ol >= 5 { 5 } else { 0 }, "C03/terminator-iff-five-bytes-free");
            assert!(bw.is_ended() == (produced == 5), "C03/finished-iff-terminator-emitted");
        }
        kani::cover!(!ended && ol == 4, "terminator-does-not-fit");
        kani::cover!(!ended && ol == 5, "terminator-fits-exactly");
        kani::cover!(ended && ol >= 5, "repeated-finishing-write");
    }
}

//@ props: C19
//@ tier: quick
//@ unwind: 6
//@ unwindset: write_all=3
//@ timeout: 900
//@ encodes: BodyWriter::write (Chunked arm) twice from the same state with in1 <= in2
//@ stubs_note: body::write_chunk replaced by havoc constrained by chunk_spec (deterministic: the spec fixes t uniquely)
//@ vars: in1 <= in2 <= 30808; out <= 30808
//@ bounds: as c03_composite_chunked_write
//@ outside: as c03_composite_chunked_write
//@ clause: offering more input never reduces progress: consumed(in2) >= consumed(in1)
#[kani::proof]
#[kani::stub(write_chunk, p_write_chunk)]
#[kani::stub(<Writer<'_> as std::io::Write>::write, p_writer_write_counts)]
fn c19_composite_monotone() {
    let in1 = any_le(NCOMP);
    let in2 = any_le(NCOMP);
    kani::assume(1 <= in1 && in1 <= in2);
    let ol = any_le(NCOMP);
    let input = [0u8; NCOMP];
    let mut out = [0u8; NCOMP];
    let n1 = {
        let mut bw = mk_writer_chunked(false);
        let mut w = Writer::new(&mut out[..ol]);
        let n = bw.write(&input[..in1], &mut w);
        core::mem::forget(w);
        n
    };
    let n2 = {
        let mut bw = mk_writer_chunked(false);
        let mut w = Writer::new(&mut out[..ol]);
        let n = bw.write(&input[..in2], &mut w);
        core::mem::forget(w);
        n
    };
    assert!(n2 >= n1, "C19/more-input-never-reduces-progress");
    kani::cover!(n2 > n1, "strictly-more");
    kani::cover!(n1 == n2 && in2 > in1 && n1 > 0, "space-limited");
}

//@ props: C03
//@ tier: quick
//@ unwind: 4
//@ unwindset: c03_finish_step_bytes=12
//@ timeout: 600
//@ encodes: BodyWriter::write (Chunked arm, empty input), BodyWriter::finish, real Writer
//@ vars: ended: bool; out: 0..=8 symbolic bytes behind a prefix p<=2
//@ bounds: out <= 8 bytes
//@ outside: -
//@ clause: an empty write emits exactly the 5 bytes 0 CR LF CR LF iff not finished and 5 bytes are free; finished afterwards iff the terminator has been emitted (now or earlier); earlier output untouched
#[kani::proof]
fn c03_finish_step_bytes() {
    let ended: bool = kani::any();
    let out0: [u8; 10] = kani::any();
    let p = any_le(2);
    let ol = any_le(8);
    let mut out = out0;
    let mut bw = mk_writer_chunked(ended);
    let (n, end) = {
        let mut w = Writer::new(&mut out[..p + ol]);
        w.0.set_position(p as u64);
        let n = bw.write(&[], &mut w);
        let e = w.len();
        core::mem::forget(w);
        (n, e)
    };
    assert!(n == 0, "C03/empty-write-consumes-nothing");
    let emit = !ended && ol >= 5;
    assert!(end == p + if emit { 5 } else { 0 }, "C03/terminator-exactly-once-iff-five-bytes-free");
    assert!(bw.is_ended() == (ended || emit), "C03/finished-iff-terminator-emitted");
    let term = [b'0', b'\r', b'\n', b'\r', b'\n'];
    let mut i = 0;
    while i < 10 {
        if emit && i >= p && i < p + 5 {
            assert!(out[i] == term[i - p], "C03/terminator-bytes");
        } else if i < p {
            // (bytes behind the reported end are not output; a rolled-back partial write may have touched them)
            assert!(out[i] == out0[i], "C03/earlier-output-untouched");
        }
        i += 1;
    }
    kani::cover!(emit, "terminator-emitted");
    kani::cover!(!ended && ol == 4, "terminator-does-not-fit");
    kani::cover!(ended && ol >= 5, "repeated-finishing-write");
}

// =====================================================================================
// C06 — response body framing decision table
// =====================================================================================

fn c06_parse_u64(s: &str) -> Option<u64> {
    // oracle-side decimal parser (digits only, no sign, no whitespace, must fit u64)
    let b = s.as_bytes();
    if b.is_empty() {
        return None;
    }
    let mut v: u64 = 0;
    let mut i = 0;
    while i < b.len() {
        let c = b[i];
        if c < b'0' || c > b'9' {
            return None;
        }
        v = v.checked_mul(10)?.checked_add((c - b'0') as u64)?;
        i += 1;
    }
    Some(v)
}

/// `te_chunked` is decided per cell by the generator's menu, restated here by string identity.
fn c06_te_declares_chunked(te: Option<&str>) -> bool {
    match te {
        Some("chunked") | Some("Chunked") | Some("gzip, chunked") | Some("gzip,chunked ") => true,
        _ => false,
    }
}

fn c06_case(cl: Option<&'static str>, te: Option<&'static str>) {
    let http10: bool = kani::any();
    let mi = any_idx(9);
    let method = method_at(mi);
    let status: u16 = kani::any();
    kani::assume(status >= 100 && status <= 999);
    // Header lookup handed to `for_response`: names are told apart by length (14 =
    // content-length, 17 = transfer-encoding) to keep string comparison out of the harness.
    let cl_l: Option<&str> = cl;
    let te_l: Option<&str> = te;
    let lookup = |name: &str| {
        if name.len() == 14 {
            cl_l
        } else if name.len() == 17 {
            te_l
        } else {
            None
        }
    };
    let r = BodyReader::for_response(http10, &method, status, &lookup);

    let cl_num = match cl {
        None => None,
        Some(s) => Some(c06_parse_u64(s)),
    };
    let cl_bad = matches!(cl_num, Some(None));
    let chunked = c06_te_declares_chunked(te) && !http10;
    let is_head = mi == 1;
    let is_connect = mi == 5;
    let no_body_rule = is_head
        || (is_connect && status >= 200 && status <= 299)
        || (status >= 100 && status <= 199)
        || status == 204
        || status == 304;
    let is_redirect = status >= 300 && status <= 399 && status != 304;
    // "a redirect without any framing header": ambiguous when a Transfer-Encoding: chunked
    // field is present but ignored because the response is HTTP/1.0 - not asserted there
    let ambiguous = is_redirect && http10 && c06_te_declares_chunked(te) && cl.is_none();
    match r {
        Err(e) => {
            assert!(cl_bad, "C06/only-non-numeric-content-length-is-an-error");
            core::mem::forget(e);
        }
        Ok(mode) => {
            assert!(!cl_bad, "C06/non-numeric-content-length-is-an-error");
            if no_body_rule {
                assert!(mode == BodyReader::NoBody, "C06/no-body-for-head-connect2xx-1xx-204-304");
            } else if chunked {
                assert!(matches!(mode, BodyReader::Chunked(Dechunker::Size)), "C06/chunked-takes-precedence");
            } else if let Some(Some(n)) = cl_num {
                assert!(mode == BodyReader::LengthDelimited(n), "C06/exactly-content-length");
            } else if is_redirect {
                if !ambiguous {
                    assert!(mode == BodyReader::NoBody, "C06/redirect-without-framing-header-has-no-body");
                }
            } else {
                assert!(mode == BodyReader::CloseDelimited, "C06/otherwise-until-close");
            }
        }
    }
    kani::cover!(no_body_rule && is_head, "head-request");
    kani::cover!(!no_body_rule && is_redirect, "redirect-with-body-rule");
    kani::cover!(!no_body_rule && !is_redirect && !http10, "plain-response-http11");
}

// ---- BEGIN generated C06 cells (harness/gen_c06.py)
//@ props: C06
//@ tier: quick
//@ unwind: 5
//@ unwindset: memchr=22 memrchr=22 memcmp=22 from_ascii_bytes_radix=22 from_str_radix=22 compare_lowercase_ascii=9 trim=16 next_match=16 c06_case=4 c06_parse_u64=22
//@ timeout: 900
//@ encodes: BodyReader::for_response, BodyReader::header_defined, util::compare_lowercase_ascii, str::split/trim/parse::<u64>
//@ vars: symbolic: response version 1.0/1.1, request method (9 standard), status 100..=999. Concrete per harness (one harness per menu cell): Content-Length in {absent, 0, 7, 18446744073709551615, 18446744073709551616, x, -1, " 7"} x Transfer-Encoding in {absent, chunked, Chunked, "gzip, chunked", "gzip,chunked ", gzip, chunkedx}
//@ bounds: the 8 x 7 header menu (all 56 cells in both tiers); full status / method / version ranges in every cell
//@ outside: header strings outside the menu; several Content-Length / Transfer-Encoding fields (the lookup returns the first)
//@ clause: no body for HEAD, 2xx to CONNECT, 1xx, 204, 304; else chunked iff HTTP/1.1 and a listed transfer coding is chunked (over Content-Length); else exactly Content-Length; else close-delimited, except 3xx (not 304) without framing header: no body; non-numeric Content-Length is an error
#[kani::proof]
fn c06_cell_cl_absent_te_absent() {
    c06_case(None, None);
}

//@ like: c06_cell_cl_absent_te_absent
//@ tier: quick
#[kani::proof]
fn c06_cell_cl_absent_te_chunked() {
    c06_case(None, Some("chunked"));
}

//@ like: c06_cell_cl_absent_te_absent
//@ tier: quick
#[kani::proof]
fn c06_cell_cl_absent_te_mixedcase() {
    c06_case(None, Some("Chunked"));
}

//@ like: c06_cell_cl_absent_te_absent
//@ tier: quick
#[kani::proof]
fn c06_cell_cl_absent_te_list() {
    c06_case(None, Some("gzip, chunked"));
}

//@ like: c06_cell_cl_absent_te_absent
//@ tier: quick
#[kani::proof]
fn c06_cell_cl_absent_te_listspace() {
    c06_case(None, Some("gzip,chunked "));
}

//@ like: c06_cell_cl_absent_te_absent
//@ tier: quick
#[kani::proof]
fn c06_cell_cl_absent_te_gzip() {
    c06_case(None, Some("gzip"));
}

//@ like: c06_cell_cl_absent_te_absent
//@ tier: quick
#[kani::proof]
fn c06_cell_cl_absent_te_chunkedx() {
    c06_case(None, Some("chunkedx"));
}

//@ like: c06_cell_cl_absent_te_absent
//@ tier: quick
//@ props: C06 C08
#[kani::proof]
fn c06_cell_cl_0_te_absent() {
    c06_case(Some("0"), None);
}

//@ like: c06_cell_cl_absent_te_absent
//@ tier: quick
#[kani::proof]
fn c06_cell_cl_0_te_chunked() {
    c06_case(Some("0"), Some("chunked"));
}

//@ like: c06_cell_cl_absent_te_absent
//@ tier: quick
#[kani::proof]
fn c06_cell_cl_0_te_mixedcase() {
    c06_case(Some("0"), Some("Chunked"));
}

//@ like: c06_cell_cl_absent_te_absent
//@ tier: quick
#[kani::proof]
fn c06_cell_cl_0_te_list() {
    c06_case(Some("0"), Some("gzip, chunked"));
}

//@ like: c06_cell_cl_absent_te_absent
//@ tier: quick
#[kani::proof]
fn c06_cell_cl_0_te_listspace() {
    c06_case(Some("0"), Some("gzip,chunked "));
}

//@ like: c06_cell_cl_absent_te_absent
//@ tier: quick
#[kani::proof]
fn c06_cell_cl_0_te_gzip() {
    c06_case(Some("0"), Some("gzip"));
}

//@ like: c06_cell_cl_absent_te_absent
//@ tier: quick
#[kani::proof]
fn c06_cell_cl_0_te_chunkedx() {
    c06_case(Some("0"), Some("chunkedx"));
}

//@ like: c06_cell_cl_absent_te_absent
//@ tier: quick
//@ props: C06 C08
#[kani::proof]
fn c06_cell_cl_7_te_absent() {
    c06_case(Some("7"), None);
}

//@ like: c06_cell_cl_absent_te_absent
//@ tier: quick
#[kani::proof]
fn c06_cell_cl_7_te_chunked() {
    c06_case(Some("7"), Some("chunked"));
}

//@ like: c06_cell_cl_absent_te_absent
//@ tier: quick
#[kani::proof]
fn c06_cell_cl_7_te_mixedcase() {
    c06_case(Some("7"), Some("Chunked"));
}

//@ like: c06_cell_cl_absent_te_absent
//@ tier: quick
#[kani::proof]
fn c06_cell_cl_7_te_list() {
    c06_case(Some("7"), Some("gzip, chunked"));
}

//@ like: c06_cell_cl_absent_te_absent
//@ tier: quick
#[kani::proof]
fn c06_cell_cl_7_te_listspace() {
    c06_case(Some("7"), Some("gzip,chunked "));
}

//@ like: c06_cell_cl_absent_te_absent
//@ tier: quick
#[kani::proof]
fn c06_cell_cl_7_te_gzip() {
    c06_case(Some("7"), Some("gzip"));
}

//@ like: c06_cell_cl_absent_te_absent
//@ tier: quick
#[kani::proof]
fn c06_cell_cl_7_te_chunkedx() {
    c06_case(Some("7"), Some("chunkedx"));
}

//@ like: c06_cell_cl_absent_te_absent
//@ tier: quick
//@ props: C06 C08
#[kani::proof]
fn c06_cell_cl_max_te_absent() {
    c06_case(Some("18446744073709551615"), None);
}

//@ like: c06_cell_cl_absent_te_absent
//@ tier: quick
#[kani::proof]
fn c06_cell_cl_max_te_chunked() {
    c06_case(Some("18446744073709551615"), Some("chunked"));
}

//@ like: c06_cell_cl_absent_te_absent
//@ tier: quick
#[kani::proof]
fn c06_cell_cl_max_te_mixedcase() {
    c06_case(Some("18446744073709551615"), Some("Chunked"));
}

//@ like: c06_cell_cl_absent_te_absent
//@ tier: quick
#[kani::proof]
fn c06_cell_cl_max_te_list() {
    c06_case(Some("18446744073709551615"), Some("gzip, chunked"));
}

//@ like: c06_cell_cl_absent_te_absent
//@ tier: quick
#[kani::proof]
fn c06_cell_cl_max_te_listspace() {
    c06_case(Some("18446744073709551615"), Some("gzip,chunked "));
}

//@ like: c06_cell_cl_absent_te_absent
//@ tier: quick
#[kani::proof]
fn c06_cell_cl_max_te_gzip() {
    c06_case(Some("18446744073709551615"), Some("gzip"));
}

//@ like: c06_cell_cl_absent_te_absent
//@ tier: quick
#[kani::proof]
fn c06_cell_cl_max_te_chunkedx() {
    c06_case(Some("18446744073709551615"), Some("chunkedx"));
}

//@ like: c06_cell_cl_absent_te_absent
//@ tier: quick
#[kani::proof]
fn c06_cell_cl_overflow_te_absent() {
    c06_case(Some("18446744073709551616"), None);
}

//@ like: c06_cell_cl_absent_te_absent
//@ tier: quick
#[kani::proof]
fn c06_cell_cl_overflow_te_chunked() {
    c06_case(Some("18446744073709551616"), Some("chunked"));
}

//@ like: c06_cell_cl_absent_te_absent
//@ tier: quick
#[kani::proof]
fn c06_cell_cl_overflow_te_mixedcase() {
    c06_case(Some("18446744073709551616"), Some("Chunked"));
}

//@ like: c06_cell_cl_absent_te_absent
//@ tier: quick
#[kani::proof]
fn c06_cell_cl_overflow_te_list() {
    c06_case(Some("18446744073709551616"), Some("gzip, chunked"));
}

//@ like: c06_cell_cl_absent_te_absent
//@ tier: quick
#[kani::proof]
fn c06_cell_cl_overflow_te_listspace() {
    c06_case(Some("18446744073709551616"), Some("gzip,chunked "));
}

//@ like: c06_cell_cl_absent_te_absent
//@ tier: quick
#[kani::proof]
fn c06_cell_cl_overflow_te_gzip() {
    c06_case(Some("18446744073709551616"), Some("gzip"));
}

//@ like: c06_cell_cl_absent_te_absent
//@ tier: quick
#[kani::proof]
fn c06_cell_cl_overflow_te_chunkedx() {
    c06_case(Some("18446744073709551616"), Some("chunkedx"));
}

//@ like: c06_cell_cl_absent_te_absent
//@ tier: quick
#[kani::proof]
fn c06_cell_cl_x_te_absent() {
    c06_case(Some("x"), None);
}

//@ like: c06_cell_cl_absent_te_absent
//@ tier: quick
#[kani::proof]
fn c06_cell_cl_x_te_chunked() {
    c06_case(Some("x"), Some("chunked"));
}

//@ like: c06_cell_cl_absent_te_absent
//@ tier: quick
#[kani::proof]
fn c06_cell_cl_x_te_mixedcase() {
    c06_case(Some("x"), Some("Chunked"));
}

//@ like: c06_cell_cl_absent_te_absent
//@ tier: quick
#[kani::proof]
fn c06_cell_cl_x_te_list() {
    c06_case(Some("x"), Some("gzip, chunked"));
}

//@ like: c06_cell_cl_absent_te_absent
//@ tier: quick
#[kani::proof]
fn c06_cell_cl_x_te_listspace() {
    c06_case(Some("x"), Some("gzip,chunked "));
}

//@ like: c06_cell_cl_absent_te_absent
//@ tier: quick
#[kani::proof]
fn c06_cell_cl_x_te_gzip() {
    c06_case(Some("x"), Some("gzip"));
}

//@ like: c06_cell_cl_absent_te_absent
//@ tier: quick
#[kani::proof]
fn c06_cell_cl_x_te_chunkedx() {
    c06_case(Some("x"), Some("chunkedx"));
}

//@ like: c06_cell_cl_absent_te_absent
//@ tier: quick
#[kani::proof]
fn c06_cell_cl_neg_te_absent() {
    c06_case(Some("-1"), None);
}

//@ like: c06_cell_cl_absent_te_absent
//@ tier: quick
#[kani::proof]
fn c06_cell_cl_neg_te_chunked() {
    c06_case(Some("-1"), Some("chunked"));
}

//@ like: c06_cell_cl_absent_te_absent
//@ tier: quick
#[kani::proof]
fn c06_cell_cl_neg_te_mixedcase() {
    c06_case(Some("-1"), Some("Chunked"));
}

//@ like: c06_cell_cl_absent_te_absent
//@ tier: quick
#[kani::proof]
fn c06_cell_cl_neg_te_list() {
    c06_case(Some("-1"), Some("gzip, chunked"));
}

//@ like: c06_cell_cl_absent_te_absent
//@ tier: quick
#[kani::proof]
fn c06_cell_cl_neg_te_listspace() {
    c06_case(Some("-1"), Some("gzip,chunked "));
}

//@ like: c06_cell_cl_absent_te_absent
//@ tier: quick
#[kani::proof]
fn c06_cell_cl_neg_te_gzip() {
    c06_case(Some("-1"), Some("gzip"));
}

//@ like: c06_cell_cl_absent_te_absent
//@ tier: quick
#[kani::proof]
fn c06_cell_cl_neg_te_chunkedx() {
    c06_case(Some("-1"), Some("chunkedx"));
}

//@ like: c06_cell_cl_absent_te_absent
//@ tier: quick
#[kani::proof]
fn c06_cell_cl_space7_te_absent() {
    c06_case(Some(" 7"), None);
}

//@ like: c06_cell_cl_absent_te_absent
//@ tier: quick
#[kani::proof]
fn c06_cell_cl_space7_te_chunked() {
    c06_case(Some(" 7"), Some("chunked"));
}

//@ like: c06_cell_cl_absent_te_absent
//@ tier: quick
#[kani::proof]
fn c06_cell_cl_space7_te_mixedcase() {
    c06_case(Some(" 7"), Some("Chunked"));
}

//@ like: c06_cell_cl_absent_te_absent
//@ tier: quick
#[kani::proof]
fn c06_cell_cl_space7_te_list() {
    c06_case(Some(" 7"), Some("gzip, chunked"));
}

//@ like: c06_cell_cl_absent_te_absent
//@ tier: quick
#[kani::proof]
fn c06_cell_cl_space7_te_listspace() {
    c06_case(Some(" 7"), Some("gzip,chunked "));
}

//@ like: c06_cell_cl_absent_te_absent
//@ tier: quick
#[kani::proof]
fn c06_cell_cl_space7_te_gzip() {
    c06_case(Some(" 7"), Some("gzip"));
}

//@ like: c06_cell_cl_absent_te_absent
//@ tier: quick
#[kani::proof]
fn c06_cell_cl_space7_te_chunkedx() {
    c06_case(Some(" 7"), Some("chunkedx"));
}

// ---- END generated C06 cells

// ---------------------------------------------------------------- canaries (must FAIL)

//@ props: C04 C19
//@ tier: canary
//@ unwind: 4
//@ timeout: 600
//@ encodes: BodyWriter::write (Sized arm) - canary: the oracle is deliberately off by one, the harness must be reported FAILED
//@ vars: as c04_writer_sized_step
//@ bounds: as c04_writer_sized_step
//@ outside: -
//@ clause: (wrong on purpose) consumed == min(in, out, left) + 1
#[kani::proof]
fn c04_canary_wrong_oracle() {
    let left: u64 = kani::any();
    let inp: [u8; 8] = kani::any();
    let il = any_le(8);
    let ol = any_le(8);
    kani::assume(il as u64 <= left);
    let mut bw = mk_writer_sized(left, false);
    let mut out = [0u8; 8];
    let n = {
        let mut w = Writer::new(&mut out[..ol]);
        let n = bw.write(&inp[..il], &mut w);
        core::mem::forget(w);
        n
    };
    let left_us = if left > usize::MAX as u64 { usize::MAX } else { left as usize };
    assert!(n == il.min(ol).min(left_us) + 1, "C04/canary-wrong-oracle");
}

//@ props: C03 C18
//@ tier: canary
//@ unwind: 6
//@ unwindset: write_all=3
//@ timeout: 600
//@ encodes: BodyWriter::write (Chunked arm) with the write_chunk contract - canary: claims that one more byte than the advertised maximum always fits
//@ vars: as c03_composite_chunked_write
//@ bounds: as c03_composite_chunked_write
//@ outside: -
//@ clause: (wrong on purpose) calculate_max_input(n) + 1 bytes are consumed completely
#[kani::proof]
#[kani::stub(write_chunk, p_write_chunk)]
#[kani::stub(<Writer<'_> as std::io::Write>::write, p_writer_write_counts)]
fn c18_canary_one_more_byte_fits() {
    let ol = any_le(NCOMP - 1);
    let il = calculate_max_input(ol) + 1;
    kani::assume(il <= NCOMP);
    let input = [0u8; NCOMP];
    let mut out = [0u8; NCOMP];
    let mut bw = mk_writer_chunked(false);
    ghost_reset();
    let n = {
        let mut w = Writer::new(&mut out[..ol]);
        let n = bw.write(&input[..il], &mut w);
        core::mem::forget(w);
        n
    };
    assert!(n == il, "C18/canary-one-more-byte-fits");
}
