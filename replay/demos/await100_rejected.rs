// Demonstration (public API only) for the Await100 -> RecvResponse defect (C09/C11) and the
// close-reason capacity defect (C12): copy into tests/ of a checkout and run `cargo test`.
use ureq_proto::client::flow::*;
use ureq_proto::http::{Request, Version};

fn to_await100(req: Request<()>) -> Flow<(), state::Await100> {
    let flow = Flow::new(req).unwrap();
    let mut flow = flow.proceed();
    let mut out = vec![0u8; 1024];
    flow.write(&mut out).unwrap();
    match flow.proceed().unwrap().unwrap() {
        SendRequestResult::Await100(f) => f,
        _ => panic!("expected Await100"),
    }
}

#[test]
fn rejected_expect_100_flow_is_usable() {
    let req = Request::post("http://a.test/x").header("expect", "100-continue").body(()).unwrap();
    let mut flow = to_await100(req);
    let input = b"HTTP/1.1 403 Forbidden\r\nContent-Length: 0\r\n\r\n";
    assert_eq!(flow.try_read_100(input).unwrap(), 0);
    let mut flow = match flow.proceed().unwrap() {
        Await100Result::RecvResponse(f) => f,
        _ => panic!("expected RecvResponse"),
    };
    // panicked with "entered unreachable code" before the fix
    let (n, resp) = flow.try_response(input).unwrap();
    assert_eq!(n, input.len());
    assert_eq!(resp.unwrap().status().as_u16(), 403);
}

#[test]
fn five_close_reasons_at_once() {
    let req = Request::post("http://a.test/x")
        .version(Version::HTTP_10)
        .header("connection", "close")
        .header("expect", "100-continue")
        .body(())
        .unwrap();
    let mut flow = to_await100(req);
    let input = b"HTTP/1.0 403 Forbidden\r\nConnection: close\r\n\r\n";
    assert_eq!(flow.try_read_100(input).unwrap(), 0);
    let mut flow = match flow.proceed().unwrap() {
        Await100Result::RecvResponse(f) => f,
        _ => panic!("expected RecvResponse"),
    };
    let (_, resp) = flow.try_response(input).unwrap();
    assert!(resp.is_some());
    // close-delimited body follows: the fifth close reason (index out of bounds before the fix)
    let flow = match flow.proceed().unwrap() {
        RecvResponseResult::RecvBody(f) => f,
        _ => panic!("expected RecvBody"),
    };
    assert!(flow.can_proceed());
}
