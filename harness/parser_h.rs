//! Harnesses for src/parser.rs + the httparse "script" environment stub.
#![allow(dead_code, unused_imports)]
use super::*;
use crate::verif_common::*;
use crate::verif_tier::THOROUGH;
use std::sync::atomic::{AtomicUsize, Ordering};

// httparse is an ENVIRONMENT for these harnesses (its raw-pointer SWAR tokenizer cannot be
// executed symbolically). Every call of `httparse::Response::parse` in an execution replays
// one script chosen by the harness:
//   kind     0 Partial | 1 Complete(consumed) | 2 Err(TooManyHeaders) | 3 Err(Status)
//   version  0 None | 1 Some(0) | 2 Some(1) | 3 Some(2)
//   code     0 None | n Some(n)
//   nhdr     number of header slots filled (from the menu below), <= slots available
// Contract assumed of httparse (spot-validated natively, see DESIGN.md): version / code are
// filled left to right; Complete implies both are present and 0 < consumed <= len; on Complete
// `headers` is truncated to the filled slots, on Partial it keeps its full length with the
// unfilled slots EMPTY_HEADER.
pub(crate) static S_KIND: AtomicUsize = AtomicUsize::new(0);
pub(crate) static S_VERSION: AtomicUsize = AtomicUsize::new(0);
pub(crate) static S_CODE: AtomicUsize = AtomicUsize::new(0);
pub(crate) static S_CONSUMED: AtomicUsize = AtomicUsize::new(0);
pub(crate) static S_NHDR: AtomicUsize = AtomicUsize::new(0);
pub(crate) static S_HDR0: AtomicUsize = AtomicUsize::new(0);
pub(crate) static S_CALLS: AtomicUsize = AtomicUsize::new(0);
pub(crate) static S_SLOTS: AtomicUsize = AtomicUsize::new(0);

pub(crate) fn script(kind: usize, version: usize, code: usize, consumed: usize, nhdr: usize, hdr0: usize) {
    S_KIND.store(kind, Ordering::Relaxed);
    S_VERSION.store(version, Ordering::Relaxed);
    S_CODE.store(code, Ordering::Relaxed);
    S_CONSUMED.store(consumed, Ordering::Relaxed);
    S_NHDR.store(nhdr, Ordering::Relaxed);
    S_HDR0.store(hdr0, Ordering::Relaxed);
    S_CALLS.store(0, Ordering::Relaxed);
    S_SLOTS.store(0, Ordering::Relaxed);
}

/// Header menu for slot 0: 0 location: /x | 1 connection: close | 2 content-length: 5 | 3 x-a: (empty value)
fn menu_header(i: usize) -> (&'static str, &'static [u8]) {
    match i {
        0 => ("location", b"/x"),
        1 => ("connection", b"close"),
        2 => ("content-length", b"5"),
        _ => ("x-a", b""),
    }
}

pub(crate) fn httparse_response_script<'h, 'b>(
    r: &mut httparse::Response<'h, 'b>,
    buf: &'b [u8],
) -> httparse::Result<usize>
where
    'h: 'h,
    'b: 'b,
{
    S_CALLS.fetch_add(1, Ordering::Relaxed);
    S_SLOTS.store(r.headers.len(), Ordering::Relaxed);
    let kind = S_KIND.load(Ordering::Relaxed);
    r.version = match S_VERSION.load(Ordering::Relaxed) {
        0 => None,
        v => Some((v - 1) as u8),
    };
    r.code = match S_CODE.load(Ordering::Relaxed) {
        0 => None,
        c => Some(c as u16),
    };
    r.reason = if r.code.is_some() { Some("") } else { None };
    let nhdr = S_NHDR.load(Ordering::Relaxed);
    if kind == 2 {
        return Err(httparse::Error::TooManyHeaders);
    }
    if kind == 3 {
        return Err(httparse::Error::Status);
    }
    if nhdr > r.headers.len() {
        // more fields than slots: httparse reports it
        return Err(httparse::Error::TooManyHeaders);
    }
    if nhdr >= 1 {
        let (n, v) = menu_header(S_HDR0.load(Ordering::Relaxed));
        r.headers[0] = httparse::Header { name: n, value: v };
    }
    let _ = buf;
    if kind == 1 {
        if nhdr < r.headers.len() {
            // (kept out of the way when there is nothing to truncate, so that a zero-length
            //  header array stays a constant for the symbolic executor)
            let h = core::mem::take(&mut r.headers);
            r.headers = &mut h[..nhdr];
        }
        Ok(httparse::Status::Complete(S_CONSUMED.load(Ordering::Relaxed)))
    } else {
        Ok(httparse::Status::Partial)
    }
}

/// Second-level environment stub: replaces `parser::try_parse_response::<N>` as a whole by the
/// script (used where building the `http::Response` through hoot's glue is out of reach). The
/// response is made with the same builder calls hoot's glue uses. Same script variables as above:
/// kind 0 => Ok(None); 1 => Ok(Some((consumed, response with the script's status/version)));
/// 2 => Err(HttpParseTooManyHeaders); 3 => Err(HttpParseFail).
pub(crate) fn p_try_parse_response<const N: usize>(input: &[u8]) -> Result<Option<(usize, Response<()>)>, Error> {
    let _ = input;
    S_CALLS.fetch_add(1, Ordering::Relaxed);
    S_SLOTS.store(N, Ordering::Relaxed);
    match S_KIND.load(Ordering::Relaxed) {
        0 => Ok(None),
        1 => {
            let status = StatusCode::from_u16(S_CODE.load(Ordering::Relaxed) as u16).unwrap();
            let version = if S_VERSION.load(Ordering::Relaxed) == 1 { Version::HTTP_10 } else { Version::HTTP_11 };
            // built exactly as hoot's glue builds it
            let mut b = Response::builder().version(version).status(status);
            if S_NHDR.load(Ordering::Relaxed) >= 1 {
                let (n, v) = menu_header(S_HDR0.load(Ordering::Relaxed));
                b = b.header(n, v);
            }
            let r = b.body(()).expect("a valid response");
            Ok(Some((S_CONSUMED.load(Ordering::Relaxed), r)))
        }
        2 => Err(Error::HttpParseTooManyHeaders),
        _ => Err(Error::HttpParseFail(String::new())),
    }
}

// ---------------------------------------------------------------- constant-outcome script stubs
// The scripted outcome above is selected through statics, which CBMC does not constant-fold: every
// outcome class is then explored in every cell (including the expensive Complete one). The stubs
// below fix the outcome CLASS in code (one stub per class); only the status code stays in a static.

#[inline(always)]
fn script_partial<'h, 'b>(r: &mut httparse::Response<'h, 'b>, version: Option<u8>, with_code: bool) -> httparse::Result<usize> {
    S_CALLS.fetch_add(1, Ordering::Relaxed);
    r.version = version;
    r.code = if with_code { Some(S_CODE.load(Ordering::Relaxed) as u16) } else { None };
    r.reason = if with_code { Some("") } else { None };
    Ok(httparse::Status::Partial)
}

/// httparse on a prefix that ends inside (or before) the version token.
pub(crate) fn hs_partial_nothing<'h, 'b>(r: &mut httparse::Response<'h, 'b>, _buf: &'b [u8]) -> httparse::Result<usize>
where
    'h: 'h,
    'b: 'b,
{
    script_partial(r, None, false)
}

/// httparse on a prefix that ends after the version token.
pub(crate) fn hs_partial_version<'h, 'b>(r: &mut httparse::Response<'h, 'b>, _buf: &'b [u8]) -> httparse::Result<usize>
where
    'h: 'h,
    'b: 'b,
{
    script_partial(r, Some(1), false)
}

/// httparse on a prefix that ends after the status line (no field, no empty line yet).
pub(crate) fn hs_partial_status<'h, 'b>(r: &mut httparse::Response<'h, 'b>, _buf: &'b [u8]) -> httparse::Result<usize>
where
    'h: 'h,
    'b: 'b,
{
    script_partial(r, Some(1), true)
}
