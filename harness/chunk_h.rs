//! Harnesses for src/chunk.rs (child of `chunk`: sees Dechunker's private methods and Pos).
#![allow(dead_code, unused_imports)]
use super::*;
use crate::verif_common::*;
use crate::verif_tier::THOROUGH;

/// Representation invariant of Dechunker between calls: Size | Chunk(n>0) | CrLf | Ending | Ended.
/// `Trailer` never survives a call (entered only after a CRLF was seen, which `trailer`
/// consumes in the same call) - asserted as a post-condition by the parse_input harnesses.
pub(crate) fn any_dechunker() -> Dechunker {
    let k = any_idx(5);
    match k {
        0 => Dechunker::Size,
        1 => {
            let n: usize = kani::any();
            kani::assume(n > 0);
            Dechunker::Chunk(n)
        }
        2 => Dechunker::CrLf,
        3 => Dechunker::Ending,
        _ => Dechunker::Ended,
    }
}

// =====================================================================================
// C07 / C12 — chunked response decoding against a byte-at-a-time reference automaton
// =====================================================================================

/// Reference automaton for the chunked grammar (RFC 9112 §7.1), one byte at a time.
///   chunked-body = *chunk last-chunk trailer-section CRLF
///   chunk        = 1*HEXDIG [ chunk-ext ] CRLF chunk-data CRLF
///   last-chunk   = 1*"0" [ chunk-ext ] CRLF ;  trailer = field-line CRLF
/// Token boundaries (where a call of the decoder may stop) are the states without payload
/// in the middle: SizeStart, Data(n), DataEnd, TrailerStart, Done.
#[derive(Clone, Copy, PartialEq, Eq)]
pub(crate) enum A {
    SizeStart,            // token boundary: expecting a size line
    SizeDigits(usize),    // inside the hex digits, accumulated value
    SizeExt(usize),       // inside a chunk extension
    SizeCr(usize),        // CR of the size line seen
    Data(usize),          // token boundary: n > 0 data bytes still to come
    DataEnd,              // token boundary: CRLF after the chunk data expected
    DataEndCr,
    TrailerStart,         // token boundary: after last-chunk / after a trailer line
    TrailerLine,          // inside a trailer field line
    TrailerCr,
    FinalCr,              // CR of the terminating empty line seen
    Done,                 // token boundary: coding complete
    Reject,
}

fn hexdig(b: u8) -> Option<usize> {
    match b {
        b'0'..=b'9' => Some((b - b'0') as usize),
        b'a'..=b'f' => Some((b - b'a') as usize + 10),
        b'A'..=b'F' => Some((b - b'A') as usize + 10),
        _ => None,
    }
}

/// One byte of input. Returns (next state, is this byte chunk data?).
pub(crate) fn a_step(s: A, b: u8) -> (A, bool) {
    match s {
        A::SizeStart => match hexdig(b) {
            Some(d) => (A::SizeDigits(d), false),
            None => (A::Reject, false),
        },
        A::SizeDigits(v) => match hexdig(b) {
            // harness windows are far too short to overflow; saturate to stay total
            Some(d) => (A::SizeDigits(v.saturating_mul(16).saturating_add(d)), false),
            None => {
                if b == b';' {
                    (A::SizeExt(v), false)
                } else if b == b'\r' {
                    (A::SizeCr(v), false)
                } else {
                    (A::Reject, false)
                }
            }
        },
        A::SizeExt(v) => {
            if b == b'\r' {
                (A::SizeCr(v), false)
            } else if b == b'\n' {
                (A::Reject, false)
            } else {
                (A::SizeExt(v), false)
            }
        }
        A::SizeCr(v) => {
            if b == b'\n' {
                (if v == 0 { A::TrailerStart } else { A::Data(v) }, false)
            } else {
                (A::Reject, false)
            }
        }
        A::Data(n) => (if n == 1 { A::DataEnd } else { A::Data(n - 1) }, true),
        A::DataEnd => (if b == b'\r' { A::DataEndCr } else { A::Reject }, false),
        A::DataEndCr => (if b == b'\n' { A::SizeStart } else { A::Reject }, false),
        A::TrailerStart => {
            if b == b'\r' {
                (A::FinalCr, false)
            } else if b == b'\n' {
                (A::Reject, false)
            } else {
                (A::TrailerLine, false)
            }
        }
        A::TrailerLine => {
            if b == b'\r' {
                (A::TrailerCr, false)
            } else if b == b'\n' {
                (A::Reject, false)
            } else {
                (A::TrailerLine, false)
            }
        }
        A::TrailerCr => (if b == b'\n' { A::TrailerStart } else { A::Reject }, false),
        A::FinalCr => (if b == b'\n' { A::Done } else { A::Reject }, false),
        A::Done => (A::Done, false), // bytes of the next message
        A::Reject => (A::Reject, false),
    }
}

/// Ghost mapping: decoder state (between calls) -> automaton token boundary.
pub(crate) fn ghost_of(d: &Dechunker) -> A {
    match d {
        Dechunker::Size => A::SizeStart,
        Dechunker::Chunk(n) => A::Data(*n),
        Dechunker::CrLf => A::DataEnd,
        Dechunker::Ending => A::TrailerStart,
        Dechunker::Trailer => A::Reject, // never a state between calls
        Dechunker::Ended => A::Done,
    }
}

const LW: usize = if THOROUGH { 7 } else { 5 };
const OW: usize = 4;

/// One call of the real `parse_input` from pre-state `d0` on a symbolic window that is a
/// prefix of a valid coding (continuing from the pre-state), into `ol <= 4` output bytes.
fn c07_parse_input_case(d0: Dechunker) {
    let w: [u8; LW] = kani::any();
    let l = any_le(LW);
    let ol = any_le(OW);
    let out0: [u8; OW] = kani::any();
    // assume: w[..l] is a prefix of a valid coding from ghost_of(d0) (bytes after Done are free)
    let a0 = ghost_of(&d0);
    let mut a = a0;
    let mut i = 0;
    while i < LW {
        if i < l {
            a = a_step(a, w[i]).0;
        }
        i += 1;
    }
    kani::assume(a != A::Reject);

    let mut d = d0;
    let mut out = out0;
    let r = d.parse_input(&w[..l], &mut out[..ol]);
    let (c, o) = match r {
        Ok(v) => v,
        Err(e) => {
            core::mem::forget(e);
            assert!(false, "C07/valid-coding-never-errs");
            return;
        }
    };
    assert!(c <= l && o <= ol, "C12/counts-within-windows");
    assert!(!matches!(d, Dechunker::Trailer), "C07/trailer-state-never-survives-a-call");
    // replay the consumed prefix through the automaton
    let mut b = a0;
    let mut k = 0; // data bytes seen
    let mut was_done_before_end = false;
    let mut i = 0;
    while i < LW {
        if i < c {
            if b == A::Done {
                was_done_before_end = true;
            }
            let (nb, is_data) = a_step(b, w[i]);
            if is_data {
                if k < OW {
                    assert!(k < o && out[k] == w[i], "C07/output-is-exactly-the-chunk-data-in-order");
                }
                k += 1;
            }
            b = nb;
        }
        i += 1;
    }
    assert!(!was_done_before_end, "C07/never-consumes-past-the-final-crlf");
    assert!(k == o, "C07/produced-equals-data-bytes-consumed");
    assert!(b == ghost_of(&d), "C07/stops-on-a-token-boundary-matching-its-state");
    assert!(d.is_ended() == (b == A::Done), "C07/ended-iff-final-crlf-consumed");
    let mut j = 0;
    while j < OW {
        if j >= o {
            assert!(out[j] == out0[j], "C07/nothing-written-beyond-produced");
        }
        j += 1;
    }
    // progress (needed for "consumed totals exactly the coding"): something offered that
    // completes a token, or data with room for it, is consumed
    if let A::Data(_) = a0 {
        if l > 0 && ol > 0 {
            assert!(c > 0 && o > 0, "C07/progress-on-data");
        }
    }
    if a0 == A::DataEnd && l >= 2 {
        assert!(c >= 2, "C07/progress-on-chunk-crlf");
    }
    if a0 == A::TrailerStart && l >= 2 && w[0] == b'\r' {
        assert!(c == 2 && d.is_ended(), "C07/progress-on-final-crlf");
    }
    if a0 == A::Done {
        assert!(c == 0 && o == 0, "C07/ended-decoder-consumes-nothing");
    }
    kani::cover!(l == LW, "full-window-offered");
}

//@ props: C07 C12 C01
//@ tier: off
//@ unwind: 8|10
//@ unwindset: c07_parse_input_case=7|9 memcmp=8|10
//@ timeout: 1500|3000
//@ mem: 24
//@ encodes: Dechunker::parse_input (loop), read_size, read_data, expect_crlf, trailer_or_ended, trailer, util::find_crlf, str::from_utf8, str::trim, usize::from_str_radix
//@ vars: pre-state concrete per harness (Size | Chunk(n: any usize > 0) | CrLf | Ending | Ended); input window LW symbolic bytes assumed to be a prefix of a valid coding continuing from the pre-state (bytes after the final CRLF arbitrary); in <= LW; output buffer 4 symbolic bytes, out <= 4; LW = 5 quick / 7 thorough
//@ bounds: one call; window <= 5 (7) bytes, so size lines of <= 3 (5) characters; output <= 4 bytes
//@ outside: size lines longer than the window (incl. the 20-character sanity limit), windows > 7 bytes, several calls (covered inductively: every call starts from a state of the invariant and ends in one)
//@ clause: the consumed prefix is a sequence of whole grammar tokens from the pre-state's position ending at the post-state's position; the output is exactly the chunk-data bytes of that prefix, in order; never consumes past the final CRLF; ended iff the final CRLF was consumed; never errs on a valid prefix; makes progress when a token is completely present
#[kani::proof]
fn c07_parse_input_from_size() {
    c07_parse_input_case(Dechunker::Size);
    kani::cover!(true, "reachable");
}

//@ like: c07_parse_input_from_size
#[kani::proof]
fn c07_parse_input_from_chunk() {
    let n: usize = kani::any();
    kani::assume(n > 0);
    c07_parse_input_case(Dechunker::Chunk(n));
}

//@ like: c07_parse_input_from_size
#[kani::proof]
fn c07_parse_input_from_crlf() {
    c07_parse_input_case(Dechunker::CrLf);
}

//@ like: c07_parse_input_from_size
#[kani::proof]
fn c07_parse_input_from_ending() {
    c07_parse_input_case(Dechunker::Ending);
}

//@ like: c07_parse_input_from_size
#[kani::proof]
fn c07_parse_input_from_ended() {
    c07_parse_input_case(Dechunker::Ended);
}

// ---------------------------------------------------------------- handler lemmas (one token per call)
//
// The whole `parse_input` loop on 5 symbolic bytes exhausts 24 GB (c07_parse_input_* above are
// kept for the thorough tier with smaller windows). The loop is therefore decomposed: each
// handler is checked alone against the reference automaton; `parse_input` is `loop { handler }`
// until a handler reports "no more", so by induction over its iterations the consumed prefix is
// a sequence of whole tokens (paper argument, DESIGN.md §3 C07).

fn ghost_mid(d: &Dechunker) -> A {
    match d {
        Dechunker::Trailer => A::TrailerStart, // position unchanged; a non-empty line follows
        other => ghost_of(other),
    }
}

const HW: usize = if THOROUGH { 8 } else { 6 };

/// One handler step, dispatched exactly as `parse_input` does.
fn c07_handler_case(d0: Dechunker, assume_valid: bool) {
    let w: [u8; HW] = kani::any();
    let l = any_le(HW);
    let ol = any_le(OW);
    let out0: [u8; OW] = kani::any();
    let a0 = ghost_mid(&d0);
    if assume_valid {
        let mut a = a0;
        let mut i = 0;
        while i < HW {
            if i < l {
                a = a_step(a, w[i]).0;
            }
            i += 1;
        }
        kani::assume(a != A::Reject);
    }
    if matches!(d0, Dechunker::Trailer) {
        // `Trailer` is only entered after a CRLF was found behind a non-empty line in this window
        let mut cr = HW;
        let mut i = 0;
        while i < HW {
            if i < l && cr == HW && w[i] == b'\r' {
                cr = i;
            }
            i += 1;
        }
        kani::assume(cr > 0 && cr + 1 < l && w[cr + 1] == b'\n');
    }
    let mut d = d0;
    let mut out = out0;
    let mut pos = Pos { index_in: 0, index_out: 0 };
    let r = match d {
        Dechunker::Size => d.read_size(&w[..l], &mut pos),
        Dechunker::Chunk(_) => d.read_data(&w[..l], &mut out[..ol], &mut pos),
        Dechunker::CrLf => d.expect_crlf(&w[..l], &mut pos),
        Dechunker::Ending => d.trailer_or_ended(&w[..l], &mut pos),
        Dechunker::Trailer => d.trailer(&w[..l], &mut pos),
        Dechunker::Ended => Ok(false),
    };
    let (c, o) = (pos.index_in, pos.index_out);
    kani::cover!(l == HW || matches!(d0, Dechunker::Ended), "full-window-offered");
    let more = match r {
        Ok(m) => m,
        Err(e) => {
            core::mem::forget(e);
            assert!(!assume_valid, "C07/valid-coding-never-errs");
            // C12: an error is a normal return; nothing else is promised
            return;
        }
    };
    assert!(c <= l && o <= ol && o <= c, "C12/counts-within-windows");
    // `Trailer` is a transient state: the handler that runs in it must leave it (otherwise the
    // next call would start in a state whose entry condition - a non-empty line ahead - is gone)
    assert!(!(matches!(d0, Dechunker::Trailer) && matches!(d, Dechunker::Trailer)), "C12/trailer-state-is-left-after-its-line");
    // produced bytes are copies of consumed bytes, in order
    let mut j = 0;
    let mut i = 0;
    while i < HW {
        if i < c && j < o && j < OW && w[i] == out[j] {
            j += 1;
        }
        i += 1;
    }
    assert!(j == o, "C12/produced-bytes-are-copies-of-consumed-bytes-in-order");
    let mut j = 0;
    while j < OW {
        if j >= o {
            assert!(out[j] == out0[j], "C12/nothing-written-beyond-produced");
        }
        j += 1;
    }
    if !assume_valid {
        return;
    }
    // refinement: replay the consumed prefix through the automaton
    let mut b = a0;
    let mut k = 0;
    let mut past_done = false;
    let mut i = 0;
    while i < HW {
        if i < c {
            if b == A::Done {
                past_done = true;
            }
            let (nb, is_data) = a_step(b, w[i]);
            if is_data {
                if k < OW {
                    assert!(k < o && out[k] == w[i], "C07/output-is-exactly-the-chunk-data-in-order");
                }
                k += 1;
            }
            b = nb;
        }
        i += 1;
    }
    assert!(!past_done, "C07/never-consumes-past-the-final-crlf");
    assert!(k == o, "C07/produced-equals-data-bytes-consumed");
    assert!(b == ghost_mid(&d), "C07/stops-on-a-token-boundary-matching-its-state");
    assert!(d.is_ended() == (b == A::Done), "C07/ended-iff-final-crlf-consumed");
    // progress: `more == false` without progress only when the next token is incomplete / no room
    match d0 {
        Dechunker::Chunk(_) => {
            if l > 0 && ol > 0 {
                assert!(c > 0 && o > 0 && more, "C07/progress-on-data");
            }
        }
        Dechunker::CrLf => {
            if l >= 2 {
                assert!(c == 2, "C07/progress-on-chunk-crlf");
            }
        }
        Dechunker::Ending => {
            if l >= 2 && w[0] == b'\r' {
                assert!(c == 2 && d.is_ended(), "C07/progress-on-final-crlf");
            }
        }
        Dechunker::Trailer => {
            assert!(c > 2 && more, "C07/trailer-line-consumed-whole");
        }
        Dechunker::Ended => assert!(c == 0 && o == 0 && !more, "C07/ended-decoder-consumes-nothing"),
        Dechunker::Size => {}
    }
}

//@ props: C07 C01
//@ tier: quick
//@ unwind: 9|11
//@ unwindset: c07_handler_case=8|10 memcmp=9|11
//@ timeout: 1200|2400
//@ mem: 24
//@ encodes: Dechunker::read_size | read_data | expect_crlf | trailer_or_ended | trailer (one per harness, dispatched as parse_input does), util::find_crlf, str::from_utf8, str::trim, usize::from_str_radix
//@ vars: pre-state concrete per harness (Size | Chunk(n: any usize > 0) | CrLf | Ending | Trailer | Ended); window of HW symbolic bytes assumed to be a prefix of a valid coding continuing from the pre-state (bytes after the final CRLF arbitrary); in <= HW; output buffer 4 symbolic bytes, out <= 4; HW = 6 quick / 8 thorough
//@ bounds: one handler step; window <= 6 (8) bytes: size lines of <= 4 (6) characters incl. extensions, upper/lower-case hex, leading zeros
//@ outside: size lines longer than the window (incl. the 20-character sanity limit); the loop of parse_input / read_chunked (composition argued in DESIGN.md; c07_read_chunked_* covers boundary stops on concrete framings)
//@ clause: the bytes a handler consumes are whole grammar tokens from the pre-state's position ending at the post-state's position; output is exactly the chunk-data bytes consumed, in order; never past the final CRLF; ended iff it was consumed; never an error on a valid prefix; progress whenever the next token is completely present
#[kani::proof]
fn c07_handler_read_size() {
    c07_handler_case(Dechunker::Size, true);
}

//@ like: c07_handler_read_size
#[kani::proof]
fn c07_handler_read_data() {
    let n: usize = kani::any();
    kani::assume(n > 0);
    c07_handler_case(Dechunker::Chunk(n), true);
}

//@ like: c07_handler_read_size
#[kani::proof]
fn c07_handler_expect_crlf() {
    c07_handler_case(Dechunker::CrLf, true);
}

//@ like: c07_handler_read_size
#[kani::proof]
fn c07_handler_trailer_or_ended() {
    c07_handler_case(Dechunker::Ending, true);
}

//@ like: c07_handler_read_size
#[kani::proof]
fn c07_handler_trailer() {
    c07_handler_case(Dechunker::Trailer, true);
}

//@ like: c07_handler_read_size
#[kani::proof]
fn c07_handler_ended() {
    c07_handler_case(Dechunker::Ended, true);
}

//@ props: C12
//@ tier: quick
//@ unwind: 9|11
//@ unwindset: c07_handler_case=8|10 memcmp=9|11
//@ timeout: 1200|2400
//@ mem: 24
//@ encodes: the same handlers on ARBITRARY bytes
//@ vars: as c07_handler_* but the window is unconstrained (malformed, truncated, hostile bytes)
//@ bounds: window <= 6 (8) bytes, output <= 4 bytes
//@ outside: windows longer than 8 bytes (e.g. size lines of 17+ hex digits that overflow usize: from_str_radix returns an error, not a panic, by its contract)
//@ clause: every handler returns normally with an error or with consumed <= offered, produced <= space, produced <= consumed and every produced byte a copy of a consumed byte in order; no panic, no arithmetic overflow, no out-of-bounds index
#[kani::proof]
fn c12_handler_read_size_arbitrary() {
    c07_handler_case(Dechunker::Size, false);
    kani::cover!(true, "reached");
}

//@ like: c12_handler_read_size_arbitrary
#[kani::proof]
fn c12_handler_read_data_arbitrary() {
    let n: usize = kani::any();
    kani::assume(n > 0);
    c07_handler_case(Dechunker::Chunk(n), false);
    kani::cover!(true, "reached");
}

//@ like: c12_handler_read_size_arbitrary
#[kani::proof]
fn c12_handler_expect_crlf_arbitrary() {
    c07_handler_case(Dechunker::CrLf, false);
    kani::cover!(true, "reached");
}

//@ like: c12_handler_read_size_arbitrary
#[kani::proof]
fn c12_handler_trailer_or_ended_arbitrary() {
    c07_handler_case(Dechunker::Ending, false);
    kani::cover!(true, "reached");
}

//@ like: c12_handler_read_size_arbitrary
#[kani::proof]
fn c12_handler_trailer_arbitrary() {
    c07_handler_case(Dechunker::Trailer, false);
    kani::cover!(true, "reached");
}

//@ props: C07 C12
//@ tier: canary
//@ unwind: 9|11
//@ unwindset: c07_canary=8|10 memcmp=9|11
//@ timeout: 1200
//@ encodes: Dechunker::expect_crlf - canary: claims the handler never consumes anything; must be reported FAILED
//@ vars: as c07_handler_expect_crlf
//@ bounds: as c07_handler_expect_crlf
//@ outside: -
//@ clause: (wrong on purpose) expect_crlf consumes nothing
#[kani::proof]
fn c07_canary_crlf_consumes_nothing() {
    let w: [u8; 4] = kani::any();
    let l = any_le(4);
    let mut d = Dechunker::CrLf;
    let mut pos = Pos { index_in: 0, index_out: 0 };
    let r = d.expect_crlf(&w[..l], &mut pos);
    if r.is_ok() {
        assert!(pos.index_in == 0, "C07/canary-crlf-consumes-nothing");
    }
    core::mem::forget(r);
}

// ---------------------------------------------------------------- size-line limits (added in round 5)
//
// The handler lemmas above bound the window at 6 (8) bytes, so neither the 20-character sanity
// limit on a size line nor a size value beyond usize is inside them. The two cells below put the
// bound where those limits are: concrete maximal-length size lines with a SYMBOLIC cut, and a
// 17-digit size line with SYMBOLIC hex digits.

/// Safe, byte-wise stand-in for `core::str::from_utf8` (the real one validates in usize blocks
/// through raw pointers, which CBMC unrolls per alignment case): same verdict, same `&str`.
fn p_from_utf8(v: &[u8]) -> Result<&str, core::str::Utf8Error> {
    match v.utf8_chunks().next() {
        None => Ok(""),
        Some(c) => {
            if c.invalid().is_empty() && c.valid().len() == v.len() {
                Ok(c.valid())
            } else {
                let mut bad = [0xffu8];
                Err(core::str::from_utf8_mut(&mut bad).err().unwrap())
            }
        }
    }
}

const C07_LINE_EXT: &[u8; 27] = b"5;ext=abcdefghijklmn\r\nhello";
const C07_LINE_ZEROS: &[u8; 27] = b"00000000000000000005\r\nhello";

//@ props: C07 C01
//@ tier: off
//@ unwind: 30
//@ timeout: 1200
//@ mem: 16
//@ encodes: Dechunker::read_size, util::find_crlf, str::trim, usize::from_str_radix (str::from_utf8 replaced by a byte-wise equivalent built on <[u8]>::utf8_chunks)
//@ vars: pre-state Size; window = the first l bytes of a 20-character size line (either `5;ext=abcdefghijklmn` or `00000000000000000005`) + CRLF + 5 data bytes; l: any 0..=27 (every cut, incl. between CR and LF); which line: any bool
//@ bounds: two concrete size lines of the maximal permitted length (SANITY_CHECK = 20); one handler step per cut
//@ outside: other line contents of that length (shorter lines with symbolic contents: c07_handler_read_size)
//@ clause: every strict prefix of the size line + CRLF decides nothing, consumes nothing and never errs; from the complete line on, exactly the 22 bytes of the line are consumed and the state is Chunk(5)
#[kani::proof]
#[kani::stub(core::str::from_utf8, p_from_utf8)]
fn c07_size_line_at_limit_every_cut() {
    let l = any_le(27);
    let which: bool = kani::any();
    let line: &[u8; 27] = if which { C07_LINE_EXT } else { C07_LINE_ZEROS };
    let mut d = Dechunker::Size;
    let mut pos = Pos { index_in: 0, index_out: 0 };
    let r = d.read_size(&line[..l], &mut pos);
    kani::cover!(l == 21, "cut-between-cr-and-lf");
    kani::cover!(l == 27 && which, "whole-window-ext");
    kani::cover!(l == 27 && !which, "whole-window-zeros");
    match r {
        Err(e) => {
            core::mem::forget(e);
            assert!(false, "C07/valid-coding-never-errs");
        }
        Ok(more) => {
            if l < 22 {
                assert!(!more && pos.index_in == 0 && matches!(d, Dechunker::Size), "C07/incomplete-size-line-decides-nothing");
            } else {
                assert!(more && pos.index_in == 22, "C07/size-line-consumed-exactly");
                assert!(matches!(d, Dechunker::Chunk(5)), "C07/size-line-value");
            }
            assert!(pos.index_out == 0, "C07/size-line-produces-no-output");
        }
    }
}

//@ props: C12
//@ tier: off
//@ unwind: 30
//@ timeout: 1800
//@ mem: 24
//@ encodes: Dechunker::read_size, util::find_crlf, str::trim, usize::from_str_radix (str::from_utf8 replaced by a byte-wise equivalent built on <[u8]>::utf8_chunks)
//@ vars: pre-state Size; window = 17 or 18 SYMBOLIC hex digits (any case, first digit non-zero so that the value exceeds usize) + optional `;x` + CRLF + `abcde`; digit count: any of 17, 18
//@ bounds: size lines of 17..=20 characters whose value does not fit usize; one handler step
//@ outside: oversize lines with interior whitespace / other lengths
//@ clause: a size that does not fit usize is an error - never a panic / arithmetic overflow inside hoot, never a wrapped-around chunk length (Err, or a saturated length); an error consumes nothing
#[kani::proof]
#[kani::stub(core::str::from_utf8, p_from_utf8)]
fn c12_size_line_overflowing_usize() {
    let digits: [u8; 18] = kani::any();
    let mut i = 0;
    while i < 18 {
        let c = digits[i];
        kani::assume((c >= b'0' && c <= b'9') || (c >= b'a' && c <= b'f') || (c >= b'A' && c <= b'F'));
        i += 1;
    }
    kani::assume(digits[0] != b'0');
    let n18: bool = kani::any();
    let ext: bool = kani::any();
    let mut w = [0u8; 28];
    let mut k = 0;
    while k < 17 {
        w[k] = digits[k];
        k += 1;
    }
    if n18 {
        w[k] = digits[17];
        k += 1;
    }
    if ext {
        w[k] = b';';
        w[k + 1] = b'x';
        k += 2;
    }
    w[k] = b'\r';
    w[k + 1] = b'\n';
    let tail = b"abcde";
    let mut j = 0;
    while j < 5 {
        w[k + 2 + j] = tail[j];
        j += 1;
    }
    let l = k + 7;
    let mut d = Dechunker::Size;
    let mut pos = Pos { index_in: 0, index_out: 0 };
    let r = d.read_size(&w[..l], &mut pos);
    kani::cover!(n18 && ext, "twenty-character-line");
    kani::cover!(!n18 && !ext, "seventeen-digits");
    match r {
        Err(e) => {
            core::mem::forget(e);
            assert!(pos.index_in == 0 && pos.index_out == 0, "C12/error-consumes-nothing");
        }
        Ok(_) => {
            // a decoder that saturates instead of failing would still be in step with the server
            assert!(matches!(d, Dechunker::Chunk(usize::MAX)), "C12/oversize-chunk-length-never-wraps");
        }
    }
}
