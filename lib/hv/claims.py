"""What MANIFEST.json claims (bin/gen_manifest turns this into the JSON)."""

BMC = "bounded model checking of the real code (Kani/CBMC): inductive single-step harness from an arbitrary state satisfying the representation invariant"

CLAIMS = {
    "C04": {
        "text": "For every sized-writer state (remaining length any u64, finished flag per invariant) and every input/output "
                "window up to 16 bytes with symbolic contents, one Call::write / consume_direct_write step satisfies the "
                "property's clauses (min-of-three, verbatim copy, refusal without side effect, finished iff zero left). "
                "One inductive step from an arbitrary valid state covers histories of any length; the bound is on slice length only.",
        "design_ref": "DESIGN.md §3 C04",
        "note": "slices <= 16 bytes; Kani/CBMC toolchain trusted; representation invariant = exact image of the constructors",
        "technique": BMC,
    },
    "C08": {
        "text": "For every remaining length (any u64) and every input/output window up to 16 symbolic bytes, one read step of a "
                "length-delimited / close-delimited / absent body satisfies the property's clauses (min-of-three resp. min-of-two, "
                "verbatim, nothing beyond the count consumed, complete iff N delivered); flow-level readiness and the must-close "
                "mark are decided on Flow<RecvBody>::can_proceed and Flow<RecvResponse>::proceed from constructed states.",
        "design_ref": "DESIGN.md §3 C08",
        "note": "windows <= 16 bytes; one inductive step; Kani/CBMC toolchain trusted",
        "technique": BMC,
    },
    "C03": {
        "text": "Lemma + composite: (a) the real write_chunk is shown, for every input length 1..=10300 and every free space "
                "0..=10300, to emit exactly one non-empty, fitting, maximal chunk of wire size hexlen+len+4 or nothing at all when "
                "fewer than 6 bytes are free, and on small buffers (symbolic payload) to emit exactly lower-hex CRLF data CRLF; "
                "(b) the real BodyWriter::write / Call::write chunk loop, terminator and finished flag are checked for every "
                "in,out <= 30808 with write_chunk replaced by that contract.",
        "design_ref": "DESIGN.md §3 C03",
        "note": "assume-guarantee: the composite trusts the contract, which the lemma harnesses of the same run prove on the real "
                "function; count lemmas replace <Writer as io::Write>::write by its cursor-advance abstraction (std Cursor trusted)",
        "technique": "bounded model checking of the real code (Kani/CBMC): assume-guarantee decomposition (unit lemma + caller with contract stub), single inductive step",
    },
    "C18": {
        "text": "E2: the MIR of calculate_max_input is translated to SMT-LIB on every run and cvc5/z3 show, for ALL 2^64 values "
                "of n, that it never panics, never exceeds n and never decreases; E1: for every n <= 30808 a single chunked "
                "BodyWriter::write of calculate_max_input(n) bytes into n bytes consumes all of it (real loop and formula, "
                "write_chunk by proven contract); sized bodies: Flow::calculate_max_input returns n and C04 gives full consumption.",
        "design_ref": "DESIGN.md §3 C18",
        "note": "E2 unbounded in n (translator validated against the real function on 34 points per run); 'fits' bounded by n <= 30808",
        "technique": "SMT solving of a MIR->SMT-LIB translation (cvc5 bv-as-int + z3 Int, cross-checked) plus bounded model checking (Kani/CBMC) of the writer with a contract stub",
        "engine": "mir2smt + kani-cbmc",
    },
    "C19": {
        "text": "The chunk lemma proves on the real write_chunk that a chunk is emitted whenever 6 bytes are free and that it is the "
                "largest fitting chunk; the composite shows for all in,out <= 30808 that a body write consumes >= 1 byte when 6 bytes "
                "are free, >= min(in, advertised max), and (two executions) that more input never reduces progress; sized bodies by the C04 step.",
        "design_ref": "DESIGN.md §3 C19",
        "note": "as C03; termination of the caller's loop follows by induction on the remaining input (paper argument)",
        "technique": "bounded model checking of the real code (Kani/CBMC): assume-guarantee decomposition, two-execution (relational) harness for monotonicity",
    },
    "C17": {
        "text": "The real AmendedRequest::analyze / verify_version are decided over the complete table 5 versions x 9 methods x "
                "despite-flag x with/without-body constructor (both directions: rejected exactly for the listed classes, accepted "
                "otherwise), and Call::write on a rejected request is shown to emit nothing, stay un-analysed / not ready and fail "
                "again. Header-caused rejections (duplicate / non-text Host, duplicate / non-numeric Content-Length) are decided "
                "per menu cell in the thorough tier only (each cell costs ~10 min of symbolic execution of http's header iterators).",
        "design_ref": "DESIGN.md §3 C17",
        "note": "standard methods only; header menu of 15 cells (thorough); version 1.1 in header cells",
        "technique": "bounded model checking of the real code (Kani/CBMC): exhaustive symbolic table over finite menus",
    },
    "C06": {
        "text": "The real BodyReader::for_response is decided against the RFC decision list for every status 100..=999, every "
                "standard method and both response versions in each of the 56 cells of an 8 x 7 Content-Length x Transfer-Encoding "
                "menu; the successor selection after the head is decided through the branch predicates (need_response_body, "
                "is_redirect) for all readers / status codes.",
        "design_ref": "DESIGN.md §3 C06",
        "note": "header strings limited to the menu; successor: predicates proven for all inputs, Flow::<RecvResponse>::proceed itself "
                "cannot be executed by CBMC 6.11 (internal error, see DESIGN.md §8) - its two branch conditions are what is proven",
        "technique": "bounded model checking of the real code (Kani/CBMC): symbolic status/method/version per concrete header-menu cell",
    },
    "C07": {
        "text": "One call of the real Dechunker::parse_input (all handlers real) from each state of the representation invariant, "
                "on every window of up to 5 (7) symbolic bytes that is a prefix of a valid coding continuing from that state, into "
                "0..=4 output bytes, is checked against a byte-at-a-time reference automaton of the chunked grammar: consumed prefix = "
                "whole tokens ending in the post-state's position, output = exactly the data bytes, never past the final CRLF, ended "
                "iff it was consumed, never an error, progress when a token is complete.",
        "design_ref": "DESIGN.md §3 C07",
        "note": "single inductive step (the invariant is re-established, so sequences of calls are covered); size lines <= 3 (5) "
                "characters; the outer read loop of BodyReader (boundary stop) is covered by c07_read_chunked_*",
        "technique": "bounded model checking of the real code (Kani/CBMC): refinement check against a reference automaton, single inductive step from every state of the invariant",
    },
    "C09": {
        "text": "Per-edge harnesses on constructed flows: readiness predicates of every state for all their inputs; every "
                "successful edge out of SendRequest / Await100 / SendBody with the successor's holder kind and accessors; "
                "construction (Flow::new) and send_body_despite_method establish the invariant. Edges out of RecvResponse / RecvBody and "
                "premature (None) advances are covered through their branch predicates only (CBMC 6.11 internal error on those bodies).",
        "design_ref": "DESIGN.md §3 C09",
        "note": "state-space per edge as listed in the evidence; MAX_EXTRA_HEADERS shrunk to 4 in the verification build",
        "technique": "bounded model checking of the real code (Kani/CBMC): one inductive step per state-graph edge from constructed states",
    },
    "C10": {
        "text": "Verdict = list non-empty is decided for all 32 subsets of recorded conditions in both end states; the push sites at "
                "construction (Http10, ClientConnectionClose) are decided on concrete request cells; capacity for all five conditions; "
                "the Not100Continue / ServerConnectionClose / CloseDelimitedBody push sites are covered by the C11 / C05 harnesses and "
                "the branch predicate of RecvResponse::proceed.",
        "design_ref": "DESIGN.md §3 C10",
        "note": "composition (list only grows, one push site per condition) argued in DESIGN.md",
        "technique": "bounded model checking of the real code (Kani/CBMC): per-push-site lemmas + exhaustive symbolic subsets for the verdict",
    },
    "C01": {
        "text": "Claimed compositionally: every stepping call of the sans-IO API is shown, by the step harnesses of C02/C03/C04/C07/C08, "
                "to be a function of (state, offered window, output capacity) that consumes / produces a prefix and re-establishes "
                "the representation invariant; the read-only queries are shown not to change writer, reader or flags; presenting a window to "
                "the length-delimited reader / sized writer in one piece or in two is shown to give the same totals, bytes and state; incomplete "
                "interim heads are shown to decide nothing. "
                "Independence of whole exchanges from the slicing follows by induction over calls (paper argument in DESIGN.md §3 C01); "
                "no whole-exchange formula is solved.",
        "design_ref": "DESIGN.md §3 C01",
        "note": "conjunction of bounded step lemmas + a written composition argument; response-head segmentation rests on httparse (trusted)",
        "technique": "bounded model checking of the real code (Kani/CBMC): step-determinism / purity lemmas, composition on paper",
    },
    "C02": {
        "text": "Decided: once the head is complete, further calls of Flow::<SendRequest>::write / Call::write emit nothing and change "
                "nothing (every writer mode, every buffer size 0..=8); the head is followed by the state the graph prescribes; Host / "
                "framing-header insertion flags of the request analysis (C17 cells) and the default chunked framing for despite-method "
                "requests. NOT decided: the byte-level serialisation of the head (line atomicity, OutputOverflow) - the writer with "
                "core::fmt does not finish under CBMC even on a concrete 27-byte head.",
        "design_ref": "DESIGN.md §3 C02",
        "note": "reduced claim, see text; header-sequence level (caller-added first, suppression) only on minimal scenarios (C13/C16 harnesses)",
        "technique": "bounded model checking of the real code (Kani/CBMC): inductive step from constructed flow states",
    },
    "C11": {
        "text": "Flow::<Await100>::try_read_100 is decided for every outcome class of the interim head: through hoot's real parser glue "
                "for incomplete input at three depths, a response with fields and malformed input; with the glue scripted as a whole for "
                "complete header-less heads (100 on HTTP/1.1 and 1.0, any other 1xx, any final status): consumed exactly / nothing, body "
                "still due / cancelled, Not100Continue exactly as stated; both edges out of Await100 with successor usability; the Expect "
                "flag at construction. Every cell feeds the real bytes of its scenario, so a counterexample is replayed end to end through "
                "the real httparse.",
        "design_ref": "DESIGN.md §3 C11",
        "note": "httparse (and for complete heads hoot's parser glue) replaced by a deterministic script environment under a stated "
                "contract; late-100 skipping in RecvResponse not decided",
        "technique": "bounded model checking of the real code (Kani/CBMC) with an environment stub enumerating httparse's outcome classes",
    },
    "C12": {
        "text": "Safety clauses on ARBITRARY bytes: every dechunker handler, the length-/close-delimited readers and the chunk writer are "
                "shown to return normally with consumed <= offered, produced <= space, produced bytes copies of consumed bytes in order, "
                "no panic / overflow / out-of-bounds; the close-reason list holds all five conditions; try_read_100 never panics on any "
                "httparse outcome class.",
        "design_ref": "DESIGN.md §3 C12",
        "note": "windows <= 6 (8) bytes for the dechunker, <= 16 for the plain readers; httparse / http themselves trusted; response-head "
                "glue only for outcomes that do not build a Response",
        "technique": "bounded model checking of the real code (Kani/CBMC): unconstrained symbolic byte windows, built-in panic/overflow/bounds checks",
    },
    "C13": {
        "text": "The inherited-header suppression of a redirected request is decided on minimal scenarios (one inherited header of each "
                "kind x policy decision): Cookie and Content-Length never effective, Authorization effective iff the policy decision kept "
                "it, unrelated headers kept; every hop is rebuilt from the original request (take_request + Flow::new), so one hop from an "
                "arbitrary override URI covers chains.",
        "design_ref": "DESIGN.md §3 C13",
        "note": "effective-header count on one original header per harness (two exhaust 24 GB in http's HeaderMap iterators); the "
                "host/scheme comparison of can_redirect_auth_header on real URIs is not decided (Uri parsing out of reach)",
        "technique": "bounded model checking of the real code (Kani/CBMC): concrete minimal scenarios",
    },
    "C15": {
        "text": "Decided: the redirect state is entered exactly for 3xx statuses other than 304 (branch predicate for all status codes) "
                "and reports that status; for 307 and 308 the redirect is not followed at all for POST, PUT, PATCH and DELETE (real "
                "as_new_flow on the eight (method, status) pairs, both auth policies). NOT decided: the method a FOLLOWED redirect is "
                "rewritten to (GET/HEAD table) - building the new flow inside as_new_flow does not finish under CBMC.",
        "design_ref": "DESIGN.md §3 C15, §8.8",
        "note": "reduced claim; URL resolution stubbed (C14 not claimed); a change that makes one of the eight pairs 'followed' shows "
                "up as a timeout (exit 2), not as a replayed violation",
        "technique": "bounded model checking of the real code (Kani/CBMC): concrete (method, status) cells + branch predicate over all status codes",
    },
    "C16": {
        "text": "Two minimal scenarios on the real set_header / unset_header / headers / headers_len: a cookie the caller adds to a "
                "redirected request is effective although the inherited cookie is suppressed; a header added in the prepare state is "
                "still effective (and first) after send_body_despite_method() converted the call.",
        "design_ref": "DESIGN.md §3 C16",
        "note": "one caller-added header; ordering among several additions and with originals not decided (memory)",
        "technique": "bounded model checking of the real code (Kani/CBMC): concrete minimal scenario",
    },
}

PENDING = "check not built yet in this session (planned, see DESIGN.md §3); nothing is claimed"
NOT_APPLICABLE = {
    "C14": "RFC 3986 resolution is url::Url::join (url/idna/ICU tables): one concrete join does not finish symbolic execution "
           "in 10 min and Url cannot be stubbed without hiding exactly the wrapper the property is about (DESIGN.md §3 C14)",
}
NOT_APPLICABLE["C05"] = ("response-head glue builds an http::Response (http::response::Builder, HeaderName::from_bytes, HeaderMap insertion, "
                         "drop glue): even with httparse replaced by a script stub one Complete outcome does not finish in 20 min / 24 GB; the "
                         "prefix clauses that do not build a Response are decided under C11/C12 instead (DESIGN.md §3 C05)")
NOT_APPLICABLE["C20"] = ("same code path as C05 (try_parse_response / try_parse_request build http values from httparse output): out of reach for "
                         "CBMC within budget; not claimed (DESIGN.md §3 C20)")
for _p in ["C01", "C02", "C03", "C05", "C06", "C07", "C08", "C09", "C10", "C11", "C12", "C13", "C15", "C16", "C17",
           "C18", "C19", "C20"]:
    if _p not in CLAIMS:
        NOT_APPLICABLE[_p] = PENDING

NOTES = ("Every check rebuilds from /repo's working tree (rsync to a scratch dir under $TMPDIR, removed afterwards). "
         "Exit 0 = all harnesses of the property hold within their stated bounds and every cover witness is satisfied; "
         "exit 1 = solver counterexample reproduced natively against the real code; exit 2 = inconclusive "
         "(timeout/OOM/unwinding assertion/compile error/non-reproducing counterexample) - never reported as success.")
