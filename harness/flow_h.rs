//! Harnesses for src/client/flow.rs (child of `client::flow`: sees Flow.inner / Inner).
#![allow(dead_code, unused_imports)]
use super::*;
use crate::body::verif_h as bh;
use crate::body::{BodyReader, BodyWriter};
use crate::chunk::Dechunker;
use crate::client::amended::verif_h as ah;
use crate::client::call::verif_h as ch;
use crate::client::call::Call;
use crate::util::verif_h as uh;
use crate::verif_common::*;
use crate::verif_tier::THOROUGH;

// ---------------------------------------------------------------- state constructors
//
// Representation invariant per flow state = exact image of the public constructors:
//   * holder variant: Prepare/SendRequest: WithoutBody | WithBody (WithBody <=> a body is due:
//     method needs one, or send_body_despite_method); Await100/SendBody: WithBody in body phase;
//     RecvResponse: RecvResponse; RecvBody/Redirect/Cleanup: RecvBody.
//   * close_reason: duplicate-free, in program order, subset of the reasons that can have been
//     recorded before the state is entered.
//   * status/location set iff a response head was seen.

/// Close reasons recorded so far, as independent symbolic flags (pushed in program order).
pub(crate) struct Reasons {
    pub http10: bool,
    pub client_close: bool,
    pub not100: bool,
    pub server_close: bool,
}

pub(crate) fn any_reasons(allow_not100: bool, allow_server: bool) -> Reasons {
    let r = Reasons {
        http10: kani::any(),
        client_close: kani::any(),
        not100: kani::any(),
        server_close: kani::any(),
    };
    kani::assume(allow_not100 || !r.not100);
    kani::assume(allow_server || !r.server_close);
    r
}

pub(crate) fn reasons_count(r: &Reasons) -> usize {
    r.http10 as usize + r.client_close as usize + r.not100 as usize + r.server_close as usize
}

pub(crate) fn mk_inner(
    call: CallHolder<()>,
    r: &Reasons,
    should_send_body: bool,
    await_100_continue: bool,
    status: Option<StatusCode>,
    location: Option<HeaderValue>,
) -> Inner<()> {
    let mut close_reason = uh::mk_av(CloseReason::Http10);
    if r.http10 {
        close_reason.push(CloseReason::Http10);
    }
    if r.client_close {
        close_reason.push(CloseReason::ClientConnectionClose);
    }
    if r.not100 {
        close_reason.push(CloseReason::Not100Continue);
    }
    if r.server_close {
        close_reason.push(CloseReason::ServerConnectionClose);
    }
    Inner { call, close_reason, should_send_body, await_100_continue, status, location }
}

pub(crate) fn mk_flow<S: Named>(inner: Inner<()>) -> Flow<(), S> {
    Flow { inner, _ph: PhantomData }
}

pub(crate) fn holder_kind(h: &CallHolder<()>) -> u8 {
    match h {
        CallHolder::WithoutBody(_) => 0,
        CallHolder::WithBody(_) => 1,
        CallHolder::RecvResponse(_) => 2,
        CallHolder::RecvBody(_) => 3,
        CallHolder::Empty => 4,
    }
}

/// Status codes: arbitrary valid code 100..=999.
pub(crate) fn any_status() -> StatusCode {
    let c: u16 = kani::any();
    kani::assume(c >= 100 && c <= 999);
    StatusCode::from_u16(c).unwrap()
}

/// An arbitrary response-body reader in its initial state (as `for_response` can return it).
pub(crate) fn any_initial_reader() -> BodyReader {
    let k = any_idx(4);
    match k {
        0 => BodyReader::NoBody,
        1 => BodyReader::LengthDelimited(kani::any()),
        2 => BodyReader::Chunked(Dechunker::new()),
        _ => BodyReader::CloseDelimited,
    }
}

// =====================================================================================
// C09 — state graph edges; C06 successor selection; C08/C10 close-delimited mark
//
// CBMC 6.11 aborts with an internal error ("l2_rename_rvalues case `struct' not handled") when
// two paths that return different variants of a by-value `Option<enum{Flow,..}>` are merged.
// Every `proceed()` harness therefore fixes, per harness, the inputs that decide the branch
// taken INSIDE proceed() (holder kind, phase, reader kind, status representative), and keeps
// symbolic what does not branch there (recorded close reasons, counters). The predicates that
// decide those branches are checked for ALL their inputs by the `c09_pred_*` harnesses, which
// take the flow by reference.
// =====================================================================================

fn no_reasons() -> Reasons {
    Reasons { http10: false, client_close: false, not100: false, server_close: false }
}

//@ props: C09 C06 C08 C15
//@ tier: quick
//@ unwind: 6
//@ timeout: 900
//@ encodes: Flow::<RecvResponse>::can_proceed, Flow::<RecvBody>::can_proceed, Flow::<SendBody>::can_proceed, Flow::<SendRequest>::can_proceed, Call::need_response_body, Inner::is_redirect, Call::is_ended/is_close_delimited/is_finished/is_body
//@ vars: reader: unset | NoBody | LengthDelimited(any u64) | Chunked(any decoder state) | CloseDelimited; status: any 100..=999 or unset; writer: none | chunked(finished any) | sized(any, finished per invariant); phase: SendLine | SendHeaders(any) | SendBody
//@ bounds: none (the full state space of the predicates)
//@ outside: -
//@ clause: readiness and branch predicates used by the proceed() edges: head-sent, body-finished, response-seen, body-complete-or-close-delimited, body-expected (mode neither none nor length 0), redirect (3xx other than 304)
#[kani::proof]
fn c09_pred_readiness_and_branches() {
    // RecvResponse: ready iff reader set; body expected iff mode not in {NoBody, Len(0)}
    let seen: bool = kani::any();
    let reader = if seen { Some(any_initial_reader()) } else { None };
    let status = if kani::any() { Some(any_status()) } else { None };
    let code = status.map(|s| s.as_u16()).unwrap_or(0);
    let rr: Call<crate::client::call::state::RecvResponse, ()> = ch::mk_call_in(3, 0, bh::mk_writer_none(), reader, true);
    assert!(rr.is_finished() == seen, "C09/ready-iff-head-parsed");
    let want_body = !matches!(reader, Some(BodyReader::NoBody) | Some(BodyReader::LengthDelimited(0)));
    assert!(rr.need_response_body() == want_body, "C06/body-state-iff-non-empty-body-expected");
    core::mem::forget(rr);
    // redirect predicate over all status codes
    let inner = mk_inner(CallHolder::Empty, &no_reasons(), false, false, status, None);
    let is_redirect = code >= 300 && code <= 399 && code != 304;
    assert!(inner.is_redirect() == is_redirect, "C15/redirect-iff-3xx-except-304");
    core::mem::forget(inner);
    // RecvBody: ready iff complete or close-delimited
    let k = any_idx(4);
    let rd = match k {
        0 => BodyReader::NoBody,
        1 => BodyReader::LengthDelimited(kani::any()),
        2 => BodyReader::Chunked(crate::chunk::verif_h::any_dechunker()),
        _ => BodyReader::CloseDelimited,
    };
    let complete = match rd {
        BodyReader::NoBody => true,
        BodyReader::LengthDelimited(n) => n == 0,
        BodyReader::Chunked(d) => d.is_ended(),
        BodyReader::CloseDelimited => false,
    };
    let holder = CallHolder::RecvBody(ch::mk_call_in(4, 0, bh::mk_writer_none(), Some(rd), true));
    let flow: Flow<(), RecvBody> = mk_flow(mk_inner(holder, &no_reasons(), false, false, status, None));
    assert!(flow.can_proceed() == (complete || k == 3), "C09/ready-iff-body-complete-or-close-delimited");
    if k == 3 {
        assert!(flow.can_proceed(), "C08/close-delimited-may-proceed-any-time");
    }
    core::mem::forget(flow);
    // SendBody: ready iff finished
    let writer = if kani::any() { bh::mk_writer_chunked(kani::any()) } else { bh::any_writer_sized() };
    let fin = writer.is_ended();
    let holder = CallHolder::WithBody(ch::mk_call_in(2, 0, writer, None, true));
    let flow: Flow<(), SendBody> = mk_flow(mk_inner(holder, &no_reasons(), true, false, None, None));
    assert!(flow.can_proceed() == fin, "C09/ready-iff-body-finished");
    core::mem::forget(flow);
    // SendRequest: ready iff head complete
    let pk = any_idx(3);
    let wb: bool = kani::any();
    let holder = if wb {
        CallHolder::WithBody(ch::mk_call_in(pk, kani::any(), bh::mk_writer_chunked(false), None, pk != 0))
    } else {
        CallHolder::WithoutBody(ch::mk_call_in(pk, kani::any(), bh::mk_writer_none(), None, pk != 0))
    };
    let flow: Flow<(), SendRequest> = mk_flow(mk_inner(holder, &no_reasons(), wb, false, None, None));
    assert!(flow.can_proceed() == (pk == 2), "C09/ready-iff-head-complete");
    core::mem::forget(flow);
    kani::cover!(seen && !want_body, "no-body-expected");
    kani::cover!(is_redirect, "redirect-status");
    kani::cover!(code == 304, "not-modified");
}

// ---------------------------------------------------------------- SendRequest edge cells

fn edge_send_request(with_body: bool, pk: usize, await100: bool) {
    let hi: usize = kani::any();
    let reasons = any_reasons(false, false);
    let writer = if with_body { bh::mk_writer_sized(kani::any(), false) } else { bh::mk_writer_none() };
    let holder = if with_body {
        CallHolder::WithBody(ch::mk_call_in(pk, hi, writer, None, pk != 0))
    } else {
        CallHolder::WithoutBody(ch::mk_call_in(pk, hi, writer, None, pk != 0))
    };
    let flow: Flow<(), SendRequest> = mk_flow(mk_inner(holder, &reasons, with_body, await100, None, None));
    let ready = flow.can_proceed();
    assert!(ready == (pk == 2), "C09/ready-iff-head-complete");
    match flow.proceed() {
        Err(_) => assert!(false, "C09/advancing-a-complete-head-never-errs"),
        Ok(None) => assert!(!ready, "C09/ready-implies-advance-succeeds"),
        Ok(Some(next)) => {
            assert!(ready, "C09/advance-succeeds-only-when-ready");
            match next {
                SendRequestResult::Await100(f) => {
                    assert!(with_body && await100, "C09/await100-only-with-body-and-expect");
                    assert!(holder_kind(&f.inner.call) == 1, "C09/successor-holder-matches-state");
                    assert!(f.can_keep_await_100(), "C09/successor-usable");
                    core::mem::forget(f);
                }
                SendRequestResult::SendBody(mut f) => {
                    assert!(with_body && !await100, "C09/send-body-only-with-body-and-no-expect");
                    assert!(holder_kind(&f.inner.call) == 1, "C09/successor-holder-matches-state");
                    assert!(!f.can_proceed(), "C09/successor-usable");
                    assert!(!f.is_chunked(), "C09/successor-usable");
                    core::mem::forget(f);
                }
                SendRequestResult::RecvResponse(f) => {
                    assert!(!with_body, "C09/recv-response-directly-only-without-body");
                    assert!(holder_kind(&f.inner.call) == 2, "C09/successor-holder-matches-state");
                    assert!(!f.can_proceed(), "C09/fresh-recv-response-not-ready");
                    core::mem::forget(f);
                }
            }
        }
    }
    kani::cover!(true, "cell-reached");
}

//@ props: C09 C02
//@ tier: quick
//@ unwind: 6
//@ timeout: 900
//@ encodes: Flow::<SendRequest>::can_proceed, Flow::<SendRequest>::proceed, Call::into_receive / do_into_receive, CallHolder accessors; successor accessors
//@ vars: concrete per harness: holder WithoutBody|WithBody, phase SendLine|SendHeaders|SendBody, Expect flag. Symbolic: header index, recorded close reasons (any admissible subset), remaining length of the sized writer
//@ bounds: one harness per branch of proceed() (see the note at the top of this section)
//@ outside: -
//@ clause: can_proceed() <=> proceed() yields a successor <=> the head is complete; successor = Await100 if a body is due and Expect was sent, SendBody if a body is due, else RecvResponse; the successor's holder matches its state and its accessors do not panic; a premature proceed() returns None
#[kani::proof]
fn c09_edge_send_request_to_await100() {
    edge_send_request(true, 2, true);
}

//@ like: c09_edge_send_request_to_await100
#[kani::proof]
fn c09_edge_send_request_to_send_body() {
    edge_send_request(true, 2, false);
}

//@ like: c09_edge_send_request_to_await100
#[kani::proof]
fn c09_edge_send_request_to_recv_response() {
    edge_send_request(false, 2, false);
}

//@ like: c09_edge_send_request_to_await100
//@ tier: off
#[kani::proof]
fn c09_edge_send_request_premature_line() {
    edge_send_request(true, 0, true);
}

//@ like: c09_edge_send_request_to_await100
//@ tier: off
#[kani::proof]
fn c09_edge_send_request_premature_headers() {
    edge_send_request(false, 1, false);
}

// ---------------------------------------------------------------- Await100 edge cells

fn edge_await100(body_due: bool) {
    let await100: bool = if body_due { kani::any() } else { false };
    let mut reasons = any_reasons(true, false);
    // Not100Continue is recorded exactly when the body was cancelled
    reasons.not100 = !body_due;
    let writer = bh::mk_writer_sized(kani::any(), false);
    let holder = CallHolder::WithBody(ch::mk_call_in(2, 0, writer, None, true));
    let flow: Flow<(), Await100> = mk_flow(mk_inner(holder, &reasons, body_due, await100, None, None));
    assert!(flow.can_keep_await_100() == await100, "C11/keep-waiting-flag");
    match flow.proceed() {
        Err(_) => assert!(false, "C09/leaving-await100-never-errs"),
        Ok(Await100Result::SendBody(mut f)) => {
            assert!(body_due, "C11/body-sent-only-if-not-refused");
            assert!(holder_kind(&f.inner.call) == 1, "C09/successor-holder-matches-state");
            assert!(!f.can_proceed(), "C09/successor-usable");
            assert!(!f.is_chunked(), "C09/successor-usable");
            core::mem::forget(f);
        }
        Ok(Await100Result::RecvResponse(f)) => {
            assert!(!body_due, "C11/body-sent-if-not-refused");
            assert!(holder_kind(&f.inner.call) == 2, "C09/successor-holder-matches-state");
            assert!(!f.can_proceed(), "C09/successor-usable");
            assert!(f.inner.close_reason.len() >= 1, "C11/refusal-marks-must-close");
            core::mem::forget(f);
        }
    }
    kani::cover!(true, "cell-reached");
}

//@ props: C09 C11
//@ tier: quick
//@ unwind: 6
//@ timeout: 900
//@ encodes: Flow::<Await100>::proceed, can_keep_await_100, CallHolder::analyze_request (already analysed), successor accessors (Flow::<SendBody>::can_proceed/is_chunked, Flow::<RecvResponse>::can_proceed)
//@ vars: concrete per harness: body still due / refused. Symbolic: await flag, recorded reasons (Not100Continue iff refused), remaining length
//@ bounds: one harness per branch of proceed()
//@ outside: the bytes that led here (try_read_100: C11 script harnesses)
//@ clause: leaving Await100 always succeeds; successor = SendBody iff the body is still due, else RecvResponse; the successor's holder matches its state and its accessors do not panic
#[kani::proof]
fn c09_edge_await100_to_send_body() {
    edge_await100(true);
}

//@ like: c09_edge_await100_to_send_body
#[kani::proof]
fn c09_edge_await100_to_recv_response() {
    edge_await100(false);
}

// ---------------------------------------------------------------- SendBody edge cells

fn edge_send_body(chunked: bool, ended: bool) {
    let writer = if chunked {
        bh::mk_writer_chunked(ended)
    } else {
        let left: u64 = kani::any();
        kani::assume(!ended || left == 0);
        bh::mk_writer_sized(left, ended)
    };
    let reasons = any_reasons(false, false);
    let holder = CallHolder::WithBody(ch::mk_call_in(2, 0, writer, None, true));
    let flow: Flow<(), SendBody> = mk_flow(mk_inner(holder, &reasons, true, kani::any(), None, None));
    let ready = flow.can_proceed();
    assert!(ready == ended, "C09/ready-iff-body-finished");
    match flow.proceed() {
        None => assert!(!ready, "C09/ready-implies-advance-succeeds"),
        Some(f) => {
            assert!(ready, "C09/advance-succeeds-only-when-ready");
            assert!(holder_kind(&f.inner.call) == 2, "C09/successor-holder-matches-state");
            assert!(!f.can_proceed(), "C09/fresh-recv-response-not-ready");
            core::mem::forget(f);
        }
    }
    kani::cover!(true, "cell-reached");
}

//@ props: C09
//@ tier: quick
//@ unwind: 6
//@ timeout: 900
//@ encodes: Flow::<SendBody>::can_proceed, Flow::<SendBody>::proceed, Call::<WithBody>::into_receive, successor Flow::<RecvResponse>::can_proceed
//@ vars: concrete per harness: chunked|sized, finished|unfinished. Symbolic: remaining length, recorded reasons, Expect flag
//@ bounds: one harness per branch of proceed()
//@ outside: -
//@ clause: can_proceed() <=> body finished <=> proceed() yields RecvResponse; successor holder is RecvResponse and usable; premature proceed() returns None
#[kani::proof]
fn c09_edge_send_body_chunked_finished() {
    edge_send_body(true, true);
}

//@ like: c09_edge_send_body_chunked_finished
//@ tier: off
#[kani::proof]
fn c09_edge_send_body_chunked_premature() {
    edge_send_body(true, false);
}

//@ like: c09_edge_send_body_chunked_finished
#[kani::proof]
fn c09_edge_send_body_sized_finished() {
    edge_send_body(false, true);
}

//@ like: c09_edge_send_body_chunked_finished
//@ tier: off
#[kani::proof]
fn c09_edge_send_body_sized_premature() {
    edge_send_body(false, false);
}

// ---------------------------------------------------------------- RecvResponse edge cells

/// reader kinds: 0 unset, 1 NoBody, 2 LengthDelimited(0), 3 LengthDelimited(7), 4 Chunked, 5 CloseDelimited
fn reader_of_kind(k: usize) -> Option<BodyReader> {
    match k {
        0 => None,
        1 => Some(BodyReader::NoBody),
        2 => Some(BodyReader::LengthDelimited(0)),
        3 => Some(BodyReader::LengthDelimited(7)),
        4 => Some(BodyReader::Chunked(Dechunker::new())),
        _ => Some(BodyReader::CloseDelimited),
    }
}

fn edge_recv_response(rk: usize, code: u16) {
    let seen = rk != 0;
    let reader = reader_of_kind(rk);
    let status = if seen { Some(StatusCode::from_u16(code).unwrap()) } else { None };
    let reasons = any_reasons(true, seen);
    let n0 = reasons_count(&reasons);
    let holder = CallHolder::RecvResponse(ch::mk_call_in(3, 0, bh::mk_writer_none(), reader, true));
    let flow: Flow<(), RecvResponse> = mk_flow(mk_inner(holder, &reasons, kani::any(), kani::any(), status, None));
    let ready = flow.can_proceed();
    assert!(ready == seen, "C09/ready-iff-head-parsed");
    let want_body = rk >= 3;
    let is_redirect = code >= 300 && code <= 399 && code != 304;
    match flow.proceed() {
        None => assert!(!ready, "C09/ready-implies-advance-succeeds"),
        Some(next) => {
            assert!(ready, "C09/advance-succeeds-only-when-ready");
            match next {
                RecvResponseResult::RecvBody(f) => {
                    assert!(want_body, "C06/body-state-only-for-non-empty-body");
                    assert!(holder_kind(&f.inner.call) == 3, "C09/successor-holder-matches-state");
                    let close_delim = rk == 5;
                    assert!(f.inner.close_reason.len() == n0 + close_delim as usize, "C10/close-delimited-recorded-iff-close-delimited");
                    if close_delim {
                        assert!(f.inner.close_reason[n0] == CloseReason::CloseDelimitedBody, "C10/close-delimited-reason-kind");
                        assert!(f.can_proceed(), "C08/close-delimited-may-proceed-any-time");
                        assert!(matches!(f.body_mode(), BodyMode::CloseDelimited), "C06/successor-reports-decided-mode");
                    } else if rk == 3 {
                        assert!(matches!(f.body_mode(), BodyMode::LengthDelimited(7)), "C06/successor-reports-decided-mode");
                        assert!(!f.can_proceed(), "C08/length-delimited-not-complete-before-N");
                    } else {
                        assert!(matches!(f.body_mode(), BodyMode::Chunked), "C06/successor-reports-decided-mode");
                        assert!(!f.can_proceed(), "C09/successor-usable");
                    }
                    core::mem::forget(f);
                }
                RecvResponseResult::Redirect(f) => {
                    assert!(!want_body, "C06/non-empty-body-enters-body-state");
                    assert!(is_redirect, "C15/redirect-state-only-for-3xx-except-304");
                    assert!(holder_kind(&f.inner.call) == 3, "C09/successor-holder-matches-state");
                    assert!(f.status().as_u16() == code, "C15/redirect-reports-status");
                    assert!(f.inner.close_reason.len() == n0, "C10/no-reason-without-condition");
                    assert!(f.must_close_connection() == (n0 > 0), "C10/verdict-iff-any-reason");
                    core::mem::forget(f);
                }
                RecvResponseResult::Cleanup(f) => {
                    assert!(!want_body, "C06/non-empty-body-enters-body-state");
                    assert!(!is_redirect, "C15/3xx-except-304-enters-redirect");
                    assert!(holder_kind(&f.inner.call) == 3, "C09/successor-holder-matches-state");
                    assert!(f.inner.close_reason.len() == n0, "C10/no-reason-without-condition");
                    assert!(f.must_close_connection() == (n0 > 0), "C10/verdict-iff-any-reason");
                    assert!(f.close_reason().is_some() == (n0 > 0), "C10/reason-given-iff-must-close");
                    core::mem::forget(f);
                }
            }
        }
    }
    kani::cover!(n0 == 4 || !seen, "all-earlier-reasons-recorded");
}

//@ props: C09 C06 C08 C10 C15 C12
//@ tier: off
//@ unwind: 6
//@ timeout: 900
//@ encodes: Flow::<RecvResponse>::can_proceed, Flow::<RecvResponse>::proceed, Call::need_response_body, Call::do_into_body, Call::is_close_delimited, Inner::is_redirect, ArrayVec::push (close reasons), successor accessors (Flow::<RecvBody>::can_proceed/body_mode, Flow::<Redirect>::status/must_close_connection, Flow::<Cleanup>::must_close_connection/close_reason)
//@ vars: concrete per harness: reader unset | NoBody | LengthDelimited(0) | LengthDelimited(7) | Chunked | CloseDelimited, status representative 200 | 301 | 304 | 307. Symbolic: recorded reasons: any subset of {Http10, ClientConnectionClose, Not100Continue, ServerConnectionClose} (all four at once included), flags
//@ bounds: one harness per branch of proceed(); the branch predicates are covered for all readers / status codes by c09_pred_readiness_and_branches
//@ outside: how the reader was chosen from the head (C06 table harnesses)
//@ clause: can_proceed() <=> a response head was parsed <=> proceed() yields a successor; successor = RecvBody iff the body mode is neither none nor length 0, else Redirect iff status is 3xx other than 304, else Cleanup; CloseDelimitedBody is recorded exactly when a close-delimited body follows - also on top of four earlier reasons, without overflow; the successor reports the decided body mode / status and is usable
#[kani::proof]
fn c09_edge_recv_response_premature() {
    edge_recv_response(0, 0);
}

//@ like: c09_edge_recv_response_premature
#[kani::proof]
fn c09_edge_recv_response_nobody_200() {
    edge_recv_response(1, 200);
}

//@ like: c09_edge_recv_response_premature
#[kani::proof]
fn c09_edge_recv_response_nobody_301() {
    edge_recv_response(1, 301);
}

//@ like: c09_edge_recv_response_premature
#[kani::proof]
fn c09_edge_recv_response_nobody_304() {
    edge_recv_response(1, 304);
}

//@ like: c09_edge_recv_response_premature
#[kani::proof]
fn c09_edge_recv_response_len0_307() {
    edge_recv_response(2, 307);
}

//@ like: c09_edge_recv_response_premature
#[kani::proof]
fn c09_edge_recv_response_len0_200() {
    edge_recv_response(2, 200);
}

//@ like: c09_edge_recv_response_premature
#[kani::proof]
fn c09_edge_recv_response_len7_200() {
    edge_recv_response(3, 200);
}

//@ like: c09_edge_recv_response_premature
#[kani::proof]
fn c09_edge_recv_response_len7_301() {
    edge_recv_response(3, 301);
}

//@ like: c09_edge_recv_response_premature
#[kani::proof]
fn c09_edge_recv_response_chunked_200() {
    edge_recv_response(4, 200);
}

//@ like: c09_edge_recv_response_premature
#[kani::proof]
fn c09_edge_recv_response_close_200() {
    edge_recv_response(5, 200);
}

// ---------------------------------------------------------------- RecvBody / Redirect / Cleanup edge cells

/// reader kinds: 1 NoBody, 2 Len(0) [complete], 3 Len(7) [incomplete], 4 Chunked(Size) [incomplete],
/// 5 CloseDelimited, 6 Chunked(Ended) [complete]
fn edge_recv_body(rk: usize, code: u16) {
    let reader = match rk {
        1 => BodyReader::NoBody,
        2 => BodyReader::LengthDelimited(0),
        3 => BodyReader::LengthDelimited(7),
        4 => BodyReader::Chunked(Dechunker::Size),
        5 => BodyReader::CloseDelimited,
        _ => BodyReader::Chunked(Dechunker::Ended),
    };
    let complete = rk == 1 || rk == 2 || rk == 6;
    let close_delim = rk == 5;
    let status = StatusCode::from_u16(code).unwrap();
    let reasons = any_reasons(true, true);
    let n0 = reasons_count(&reasons);
    let holder = CallHolder::RecvBody(ch::mk_call_in(4, 0, bh::mk_writer_none(), Some(reader), true));
    let mut inner = mk_inner(holder, &reasons, kani::any(), kani::any(), Some(status), None);
    if close_delim {
        // entering RecvBody with a close-delimited body recorded the reason (c09_edge_recv_response_close_200)
        kani::assume(n0 < uh::av_cap(&inner.close_reason));
        inner.close_reason.push(CloseReason::CloseDelimitedBody);
    }
    let total = n0 + close_delim as usize;
    let flow: Flow<(), RecvBody> = mk_flow(inner);
    let ready = flow.can_proceed();
    assert!(ready == (complete || close_delim), "C09/ready-iff-body-complete-or-close-delimited");
    let is_redirect = code >= 300 && code <= 399 && code != 304;
    match flow.proceed() {
        None => assert!(!ready, "C09/ready-implies-advance-succeeds"),
        Some(RecvBodyResult::Redirect(f)) => {
            assert!(ready, "C09/advance-succeeds-only-when-ready");
            assert!(is_redirect, "C15/redirect-state-only-for-3xx-except-304");
            assert!(f.status().as_u16() == code, "C15/redirect-reports-status");
            assert!(f.must_close_connection() == (total > 0), "C10/verdict-iff-any-reason");
            assert!(f.close_reason().is_some() == (total > 0), "C10/reason-given-iff-must-close");
            let c = f.proceed();
            assert!(c.must_close_connection() == (total > 0), "C10/verdict-same-in-cleanup");
            assert!(c.close_reason().is_some() == (total > 0), "C10/reason-given-iff-must-close");
            core::mem::forget(c);
        }
        Some(RecvBodyResult::Cleanup(f)) => {
            assert!(ready, "C09/advance-succeeds-only-when-ready");
            assert!(!is_redirect, "C15/3xx-except-304-enters-redirect");
            assert!(f.must_close_connection() == (total > 0), "C10/verdict-iff-any-reason");
            assert!(f.close_reason().is_some() == (total > 0), "C10/reason-given-iff-must-close");
            if close_delim {
                assert!(f.must_close_connection(), "C08/close-delimited-always-must-close");
            }
            core::mem::forget(f);
        }
    }
    kani::cover!(total == 0 || close_delim, "reusable-connection-or-close-delimited");
}

//@ props: C09 C08 C15 C10
//@ tier: off
//@ unwind: 6
//@ timeout: 900
//@ encodes: Flow::<RecvBody>::can_proceed, Flow::<RecvBody>::proceed, Call::is_ended, Call::is_close_delimited, Inner::is_redirect, Flow::<Redirect>::proceed/status/must_close_connection/close_reason, Flow::<Cleanup>::must_close_connection/close_reason
//@ vars: concrete per harness: reader NoBody | LengthDelimited(0) | LengthDelimited(7) | Chunked(Size) | Chunked(Ended) | CloseDelimited, status representative 200 | 302 | 304. Symbolic: recorded reasons any subset (+ CloseDelimitedBody iff close-delimited), flags
//@ bounds: one harness per branch of proceed()
//@ outside: -
//@ clause: can_proceed() <=> body complete or close-delimited <=> proceed() yields a successor; successor = Redirect iff 3xx other than 304, else Cleanup; Redirect reports the status and proceeds to Cleanup; both report must-close iff a reason was recorded
#[kani::proof]
fn c09_edge_recv_body_len0_200() {
    edge_recv_body(2, 200);
}

//@ like: c09_edge_recv_body_len0_200
#[kani::proof]
fn c09_edge_recv_body_len7_premature() {
    edge_recv_body(3, 200);
}

//@ like: c09_edge_recv_body_len0_200
#[kani::proof]
fn c09_edge_recv_body_chunked_premature() {
    edge_recv_body(4, 302);
}

//@ like: c09_edge_recv_body_len0_200
#[kani::proof]
fn c09_edge_recv_body_chunked_ended_302() {
    edge_recv_body(6, 302);
}

//@ like: c09_edge_recv_body_len0_200
#[kani::proof]
fn c09_edge_recv_body_chunked_ended_304() {
    edge_recv_body(6, 304);
}

//@ like: c09_edge_recv_body_len0_200
#[kani::proof]
fn c09_edge_recv_body_close_200() {
    edge_recv_body(5, 200);
}

//@ like: c09_edge_recv_body_len0_200
#[kani::proof]
fn c09_edge_recv_body_close_301() {
    edge_recv_body(5, 301);
}

// ---------------------------------------------------------------- capacity of the close-reason list (C12)

//@ props: C12 C10 C09
//@ tier: quick
//@ unwind: 6
//@ timeout: 600
//@ encodes: ArrayVec::<CloseReason, N>::push as performed by Flow::<RecvResponse>::proceed (fifth reason), ArrayVec::first via Flow verdict helpers
//@ vars: earlier reasons: any subset of {Http10, ClientConnectionClose, Not100Continue, ServerConnectionClose}
//@ bounds: none (all 16 subsets)
//@ outside: -
//@ clause: recording CloseDelimitedBody on top of any admissible earlier reasons - all four included - does not overflow the list; the list then names the first recorded reason
#[kani::proof]
fn c12_close_reason_capacity() {
    let reasons = any_reasons(true, true);
    let n0 = reasons_count(&reasons);
    let mut inner = mk_inner(CallHolder::Empty, &reasons, false, false, None, None);
    inner.close_reason.push(CloseReason::CloseDelimitedBody);
    assert!(inner.close_reason.len() == n0 + 1, "C12/fifth-close-reason-fits");
    let first = inner.close_reason.first().map(|r| *r);
    let expect = if reasons.http10 {
        CloseReason::Http10
    } else if reasons.client_close {
        CloseReason::ClientConnectionClose
    } else if reasons.not100 {
        CloseReason::Not100Continue
    } else if reasons.server_close {
        CloseReason::ServerConnectionClose
    } else {
        CloseReason::CloseDelimitedBody
    };
    assert!(first == Some(expect), "C10/reason-names-a-condition-that-holds");
    kani::cover!(n0 == 4, "five-reasons-at-once");
    core::mem::forget(inner);
}

//@ props: C09 C02
//@ tier: quick
//@ unwind: 6
//@ unwindset: memcmp=12 from_static=20 to_str=12
//@ timeout: 900
//@ encodes: CallHolder::convert_to_send_body, Call::<WithoutBody>::into_send_body, CallHolder::analyze_request, Call::analyze_request, AmendedRequest::analyze (header-less), Flow::<SendBody>::can_proceed
//@ vars: method GET|HEAD|DELETE (concrete per run: symbolic index over the three), version 1.1, no framing header
//@ bounds: header-less requests
//@ outside: despite-method with a caller-supplied framing header (then the header decides: c17_cell_* family)
//@ clause: after send_body_despite_method() a body is due and the call can send one: the analysed writer has a body mode (chunked by default), is not finished before anything was written, and the framing header has been added
#[kani::proof]
fn c09_despite_method_gets_a_body_writer() {
    let mi = any_idx(2); // GET, HEAD
    let call: Call<crate::client::call::state::WithoutBody, ()> =
        ch::mk_call_req(ah::mk_request(mi, 2), 0, 0, bh::mk_writer_none(), None, false);
    let mut holder = CallHolder::WithoutBody(call);
    holder.convert_to_send_body();
    assert!(holder_kind(&holder) == 1, "C09/despite-method-holder-is-with-body");
    let r = holder.analyze_request();
    assert!(r.is_ok(), "C17/despite-method-request-accepted");
    let flow: Flow<(), SendBody> = mk_flow(mk_inner(holder, &no_reasons(), true, false, None, None));
    assert!(!flow.can_proceed(), "C09/body-due-is-not-finished-before-anything-was-sent");
    let c = flow.inner.call.as_with_body();
    assert!(ch::writer_of(c).has_body(), "C09/despite-method-call-can-send-a-body");
    assert!(ch::writer_of(c).is_chunked(), "C02/chunked-by-default");
    assert!(c.amended().headers_len() == 1, "C02/framing-header-added-exactly-once");
    core::mem::forget(flow);
    core::mem::forget(r);
}

// =====================================================================================
// C10 — verdict helpers (by reference) and the construction-time push sites
// =====================================================================================

//@ props: C10 C15
//@ tier: quick
//@ unwind: 6
//@ timeout: 600
//@ encodes: Flow::<Cleanup>::must_close_connection/close_reason, Flow::<Redirect>::must_close_connection/close_reason/status, CloseReason::explain
//@ vars: recorded reasons: any subset of the five conditions (in program order); status any 100..=999
//@ bounds: none (all 32 subsets)
//@ outside: -
//@ clause: in the redirect and in the cleanup state alike: must-close <=> at least one condition was recorded; a reason text is given exactly then
#[kani::proof]
fn c10_verdict_is_disjunction_of_recorded_conditions() {
    let reasons = any_reasons(true, true);
    let close_delim: bool = kani::any();
    let total = reasons_count(&reasons) + close_delim as usize;
    let status = any_status();
    let mut inner = mk_inner(CallHolder::Empty, &reasons, kani::any(), kani::any(), Some(status), None);
    if close_delim {
        inner.close_reason.push(CloseReason::CloseDelimitedBody);
    }
    let f: Flow<(), Cleanup> = mk_flow(inner);
    assert!(f.must_close_connection() == (total > 0), "C10/verdict-iff-any-reason");
    assert!(f.close_reason().is_some() == (total > 0), "C10/reason-given-iff-must-close");
    let inner = f.inner;
    let r: Flow<(), Redirect> = mk_flow(inner);
    assert!(r.must_close_connection() == (total > 0), "C10/verdict-iff-any-reason");
    assert!(r.close_reason().is_some() == (total > 0), "C10/reason-given-iff-must-close");
    assert!(r.status() == status, "C15/redirect-reports-status");
    kani::cover!(total == 0, "reusable");
    kani::cover!(total == 5, "all-five");
    core::mem::forget(r);
}

fn c10_new_case(vi: usize, conn: usize, expect100: bool, mi: usize) {
    // conn: 0 absent, 1 "close", 2 "keep-alive", 3 two fields: keep-alive, then close
    let mut req = ah::mk_request(mi, vi);
    if conn == 1 {
        req.headers_mut().append(http::header::CONNECTION, HeaderValue::from_static("close"));
    } else if conn == 2 {
        req.headers_mut().append(http::header::CONNECTION, HeaderValue::from_static("keep-alive"));
    }
    if conn == 3 {
        req.headers_mut().append(http::header::CONNECTION, HeaderValue::from_static("keep-alive"));
        req.headers_mut().append(http::header::CONNECTION, HeaderValue::from_static("close"));
    }
    if expect100 {
        req.headers_mut().append(http::header::EXPECT, HeaderValue::from_static("100-continue"));
    }
    let r = Flow::new(req);
    match r {
        Err(e) => {
            core::mem::forget(e);
            assert!(false, "C09/flow-construction-succeeds");
        }
        Ok(f) => {
            let http10 = vi == 1;
            let client_close = conn == 1 || conn == 3;
            let n = http10 as usize + client_close as usize;
            assert!(f.inner.close_reason.len() == n, "C10/construction-records-exactly-http10-and-client-close");
            if http10 {
                assert!(f.inner.close_reason[0] == CloseReason::Http10, "C10/http10-recorded");
            }
            if client_close {
                assert!(f.inner.close_reason[n - 1] == CloseReason::ClientConnectionClose, "C10/client-connection-close-recorded");
            }
            let needs = ah::method_needs_body(mi);
            assert!(f.inner.should_send_body == needs, "C09/body-due-iff-method-takes-one");
            assert!(holder_kind(&f.inner.call) == needs as u8, "C09/prepare-holder-matches-method");
            assert!(f.inner.status.is_none() && f.inner.location.is_none(), "C09/no-response-facts-yet");
            // Await100 follows the head iff a body is due and Expect: 100-continue was requested.
            // (For body-less methods the flag only matters after send_body_despite_method(); driving that
            //  here costs 17 GB per cell, so it is asserted only where a body is due by the method.)
            if needs {
                assert!(f.inner.await_100_continue == expect100, "C09/await100-follows-the-head-iff-body-due-and-expect");
            }
            core::mem::forget(f);
        }
    }
    kani::cover!(true, "cell-reached");
}

//@ props: C10 C09 C11
//@ tier: quick
//@ unwind: 6
//@ unwindset: memcmp=14 from_static=14 extend_with=10 FnvHasher=10 3all5check=18 eq_ignore_ascii_case=18 from_fn=6
//@ timeout: 1200
//@ mem: 24
//@ encodes: Flow::<Prepare>::new, HeaderIterExt::has / has_expect_100, MethodExt::need_request_body, CallHolder::new, Call::with_body / without_body, AmendedRequest::new
//@ vars: concrete per harness: request version 1.0|1.1, Connection header absent|close|keep-alive, Expect: 100-continue present|absent, method GET|POST
//@ bounds: the listed cells
//@ outside: other Connection values (token lists, mixed case), several Connection fields
//@ clause: constructing a flow records Http10 iff the request is HTTP/1.0 and ClientConnectionClose iff it carries Connection: close - nothing else; body-due / await flags and the holder kind follow the method and the Expect header
#[kani::proof]
fn c10_new_http11_plain_get() {
    c10_new_case(2, 0, false, 0);
}

//@ like: c10_new_http11_plain_get
#[kani::proof]
fn c10_new_http10_post_expect() {
    c10_new_case(1, 0, true, 2);
}

//@ like: c10_new_http11_plain_get
#[kani::proof]
fn c10_new_http11_close_post() {
    c10_new_case(2, 1, false, 2);
}

//@ like: c10_new_http11_plain_get
#[kani::proof]
fn c10_new_http10_close_get() {
    c10_new_case(1, 1, false, 0);
}

//@ like: c10_new_http11_plain_get
#[kani::proof]
fn c10_new_http11_keepalive_get() {
    c10_new_case(2, 2, false, 0);
}

//@ like: c10_new_http11_plain_get
#[kani::proof]
fn c10_new_http11_get_expect() {
    c10_new_case(2, 0, true, 0);
}

//@ like: c10_new_http11_plain_get
#[kani::proof]
fn c10_new_http11_close_in_second_connection_field() {
    c10_new_case(2, 3, false, 0);
}

// =====================================================================================
// C11 — Expect: 100-continue handshake
//
// httparse is replaced by the script environment (parser_h.rs). So that a solver counterexample can
// still be replayed natively - where stubs are inert and the REAL httparse runs - every cell feeds the
// real byte string of its scenario; the script is the outcome httparse produces for exactly those
// bytes. A native replay is therefore an end-to-end run of the scenario through the public function.
// =====================================================================================
use crate::parser::verif_h as ph;

/// Scenario bytes: `HTTP/1.<v> <ccc> X CRLF [A: b CRLF] CRLF` + filler. Returns (buffer, head length).
fn c11_bytes(v: u8, code: usize, bad_digit: bool, with_field: bool) -> ([u8; 28], usize) {
    let mut b = [b'N'; 28];
    let head = b"HTTP/1.1 000 X\r\n";
    let mut i = 0;
    while i < 16 {
        b[i] = head[i];
        i += 1;
    }
    b[7] = b'0' + v;
    b[9] = b'0' + (code / 100) as u8;
    b[10] = if bad_digit { b'x' } else { b'0' + ((code / 10) % 10) as u8 };
    b[11] = b'0' + (code % 10) as u8;
    let mut n = 16;
    if with_field {
        let f = b"A: b\r\n";
        let mut j = 0;
        while j < 6 {
            b[n + j] = f[j];
            j += 1;
        }
        n += 6;
    }
    b[n] = b'\r';
    b[n + 1] = b'\n';
    (b, n + 2)
}

/// sc: 0 empty input | 1 "HTTP/1.1" | 2 status line without the empty line | 3 bare 100 | 4 bare 100 (HTTP/1.0)
///     5 bare other 1xx | 6 bare final status | 7 status + one field | 8 malformed status | 9 status code 042
fn c11_try_read_100_case(sc: usize) {
    let code = match sc {
        5 => {
            let c: usize = kani::any();
            kani::assume(c >= 101 && c <= 199);
            c
        }
        6 | 7 => {
            let c: usize = kani::any();
            kani::assume(c >= 200 && c <= 999);
            c
        }
        8 => 403,
        9 => 42,
        _ => {
            // (drawn symbolically although it is fixed: with a literal 100 CBMC constant-propagates the
            //  whole http::Response and then reports a bogus invalid free when it is dropped)
            let c: usize = kani::any();
            kani::assume(c == 100);
            c
        }
    };
    let (buf, head_len) = c11_bytes(if sc == 4 { 0 } else { 1 }, code, sc == 8, sc == 7);
    let extra = any_le(4);
    let l = match sc {
        0 => 0,
        1 => 8,
        2 => 16,
        _ => head_len + extra,
    };
    // what httparse reports for exactly these bytes
    match sc {
        0 => ph::script(0, 0, 0, 0, 0, 0),
        1 => ph::script(0, 2, 0, 0, 0, 0),
        2 => ph::script(0, 2, 100, 0, 0, 0),
        3 | 5 | 6 | 9 => ph::script(1, 2, code, head_len, 0, 0),
        4 => ph::script(1, 1, code, head_len, 0, 0),
        7 => ph::script(2, 2, code, 0, 1, 0),
        _ => ph::script(3, 2, 0, 0, 0, 0),
    }
    let reasons = any_reasons(false, false);
    let n0 = reasons_count(&reasons);
    let holder = CallHolder::WithBody(ch::mk_call_in(2, 0, bh::mk_writer_chunked(false), None, true));
    let mut flow: Flow<(), Await100> = mk_flow(mk_inner(holder, &reasons, true, true, None, None));
    let r = flow.try_read_100(&buf[..l]);
    match sc {
        0 | 1 | 2 => {
            assert!(matches!(r, Ok(0)), "C11/incomplete-input-decides-nothing-consumes-nothing");
            assert!(flow.can_keep_await_100() && flow.inner.should_send_body, "C11/incomplete-input-changes-nothing");
            assert!(flow.inner.close_reason.len() == n0, "C11/incomplete-input-changes-nothing");
        }
        3 | 4 => {
            assert!(matches!(r, Ok(n) if n == head_len), "C11/bare-100-consumed-exactly");
            assert!(!flow.can_keep_await_100() && flow.inner.should_send_body, "C11/100-leads-to-sending-the-body");
            assert!(flow.inner.close_reason.len() == n0, "C11/100-does-not-mark-must-close");
        }
        5 | 6 | 7 => {
            assert!(matches!(r, Ok(0)), "C11/other-response-consumes-nothing");
            assert!(!flow.can_keep_await_100() && !flow.inner.should_send_body, "C11/other-response-cancels-the-body");
            assert!(flow.inner.close_reason.len() == n0 + 1, "C11/other-response-marks-must-close");
            assert!(flow.inner.close_reason[n0] == CloseReason::Not100Continue, "C10/not-100-continue-recorded");
        }
        _ => {
            assert!(r.is_err(), "C11/malformed-interim-response-is-an-error");
            assert!(flow.inner.close_reason.len() == n0, "C10/no-reason-without-condition");
        }
    }
    kani::cover!(true, "cell-reached");
    core::mem::forget(r);
    core::mem::forget(flow);
}

//@ props: C11 C10 C12 C01
//@ tier: quick
//@ unwind: 6
//@ unwindset: memcmp=12 c11_bytes=18
//@ timeout: 1500
//@ mem: 24
//@ encodes: Flow::<Await100>::try_read_100, parser::try_parse_response::<0> (hoot's glue around httparse), ArrayVec::push
//@ stubs_note: httparse::Response::parse replaced by the script environment (parser_h.rs): the outcome httparse produces for the scenario's bytes; native replay runs the real httparse on those bytes
//@ vars: concrete per harness: the scenario (empty input | version token only | status line without the empty line | status + one field | malformed status digit | status code 042). Symbolic: status within its class, number of trailing bytes of a following message (0..=4), recorded close reasons
//@ bounds: one scenario per harness; heads of 18 (24) bytes
//@ outside: httparse's own tokenizer (trusted; exercised for real in native replays), other reason phrases
//@ clause: incomplete input decides nothing and consumes nothing; any response with fields consumes nothing, cancels the body and records Not100Continue; malformed input is an error
#[kani::proof]
#[kani::stub(httparse::Response::parse, crate::parser::verif_h::httparse_response_script)]
fn c11_try_read_100_partial_empty() {
    c11_try_read_100_case(0);
}

//@ like: c11_try_read_100_partial_empty
#[kani::proof]
#[kani::stub(httparse::Response::parse, crate::parser::verif_h::httparse_response_script)]
fn c11_try_read_100_partial_version_only() {
    c11_try_read_100_case(1);
}

//@ like: c11_try_read_100_partial_empty
#[kani::proof]
#[kani::stub(httparse::Response::parse, crate::parser::verif_h::httparse_response_script)]
fn c11_try_read_100_partial_after_status_line() {
    c11_try_read_100_case(2);
}

//@ like: c11_try_read_100_partial_empty
#[kani::proof]
#[kani::stub(httparse::Response::parse, crate::parser::verif_h::httparse_response_script)]
fn c11_try_read_100_response_with_fields() {
    c11_try_read_100_case(7);
}

//@ like: c11_try_read_100_partial_empty
#[kani::proof]
#[kani::stub(httparse::Response::parse, crate::parser::verif_h::httparse_response_script)]
fn c11_try_read_100_parse_error() {
    c11_try_read_100_case(8);
}

//@ like: c11_try_read_100_partial_empty
//@ tier: off
#[kani::proof]
#[kani::stub(httparse::Response::parse, crate::parser::verif_h::httparse_response_script)]
fn c11_try_read_100_invalid_status_code() {
    c11_try_read_100_case(9);
}

//@ props: C11 C10 C12 C01
//@ tier: quick
//@ unwind: 6
//@ unwindset: memcmp=12 c11_bytes=18
//@ timeout: 1500
//@ mem: 24
//@ encodes: Flow::<Await100>::try_read_100 (decision on a complete header-less interim head), ArrayVec::push
//@ stubs_note: parser::try_parse_response::<0> replaced AS A WHOLE by the script environment (building an http::Response through hoot's glue does not finish under CBMC): complete head with the scenario's status and version, no fields. Native replay runs the real parser glue and the real httparse on the scenario's bytes
//@ vars: concrete per harness: status class (100 on HTTP/1.1 | 100 on HTTP/1.0 | any 101..=199 | any 200..=999, symbolic within the class). Symbolic: trailing bytes of a following message (0..=4), recorded close reasons
//@ bounds: status classes as stated
//@ outside: hoot's parser glue under the solver (C05/C20 not claimed)
//@ clause: a complete bare 100 is consumed exactly and leads to sending the body; any other complete response - other 1xx included - consumes nothing, cancels the body and records Not100Continue
#[kani::proof]
#[kani::stub(crate::parser::try_parse_response, crate::parser::verif_h::p_try_parse_response)]
fn c11_try_read_100_complete_bare_100() {
    c11_try_read_100_case(3);
}

//@ like: c11_try_read_100_complete_bare_100
#[kani::proof]
#[kani::stub(crate::parser::try_parse_response, crate::parser::verif_h::p_try_parse_response)]
fn c11_try_read_100_complete_bare_100_http10() {
    c11_try_read_100_case(4);
}

//@ like: c11_try_read_100_complete_bare_100
#[kani::proof]
#[kani::stub(crate::parser::try_parse_response, crate::parser::verif_h::p_try_parse_response)]
fn c11_try_read_100_complete_other_1xx() {
    c11_try_read_100_case(5);
}

//@ like: c11_try_read_100_complete_bare_100
#[kani::proof]
#[kani::stub(crate::parser::try_parse_response, crate::parser::verif_h::p_try_parse_response)]
fn c11_try_read_100_complete_final_status() {
    c11_try_read_100_case(6);
}

// =====================================================================================
// C15 / C13 — following a redirect (URL resolution replaced by a stub: C14 is not claimed)
// =====================================================================================

/// Stub for `AmendedRequest::new_uri_from_location` (url crate out of reach): the target is the
/// default URI "/"; C15 / C13 clauses checked here do not depend on which target is computed.
pub(crate) fn p_new_uri_from_location<Body>(_ar: &crate::client::amended::AmendedRequest<Body>, _location: &str) -> Result<Uri, Error> {
    Ok(Uri::default())
}

fn c15_redirect_case(mi: usize, code: u16, same_host_policy: bool) {
    let status = StatusCode::from_u16(code).unwrap();
    let call: Call<crate::client::call::state::RecvBody, ()> =
        ch::mk_call_req(ah::mk_request(mi, 2), 4, 0, bh::mk_writer_none(), Some(BodyReader::NoBody), true);
    let holder = CallHolder::RecvBody(call);
    let mut flow: Flow<(), Redirect> =
        mk_flow(mk_inner(holder, &no_reasons(), false, false, Some(status), Some(HeaderValue::from_static("/y"))));
    let policy = if same_host_policy { RedirectAuthHeaders::SameHost } else { RedirectAuthHeaders::Never };
    let r = flow.as_new_flow(policy);
    let retain = code == 307 || code == 308;
    let body_method = ah::method_needs_body(mi);
    let is_delete = mi == 4;
    match r {
        Err(e) => {
            core::mem::forget(e);
            assert!(false, "C15/redirect-with-location-never-errs");
        }
        Ok(None) => {
            assert!(retain && (body_method || is_delete), "C15/not-followed-only-for-307-308-with-body-method-or-delete");
        }
        Ok(Some(next)) => {
            assert!(!(retain && (body_method || is_delete)), "C15/307-308-not-followed-for-body-methods-and-delete");
            let m = next.method();
            let expect = if retain || mi == 0 || mi == 1 { mi } else { 0 };
            assert!(*m == method_at(expect), "C15/method-rewriting-table");
            assert!(holder_kind(&next.inner.call) == 0, "C09/redirected-flow-starts-in-prepare-without-body");
            core::mem::forget(next);
        }
    }
    assert!(flow.status() == status, "C15/redirect-reports-status");
    kani::cover!(true, "cell-reached");
    core::mem::forget(flow);
}

//@ props: C15 C13 C09
//@ tier: off
//@ unwind: 6
//@ unwindset: memcmp=16 from_static=8 from_fn=6 from_bytes=20 parse_hdr=20 FnvHasher=20 extend_with=10 eq_ignore_ascii_case=18 3all5check=18 to_str=6
//@ timeout: 2400
//@ mem: 24
//@ encodes: Flow::<Redirect>::as_new_flow (method selection, policy, unset list), StatusExt::is_redirect_retaining_status, MethodExt::need_request_body, AmendedRequest::take_request/set_uri/unset_header, Flow::<Prepare>::new, can_redirect_auth_header
//@ stubs_note: AmendedRequest::new_uri_from_location replaced by a stub returning the URI "/" (url crate out of reach; C14 not claimed)
//@ vars: concrete per harness: (method, status) representative pairs, auth policy
//@ bounds: the listed cells: {GET, HEAD, POST, PUT, DELETE, OPTIONS} x {301, 302, 303, 307, 308} representatives
//@ outside: the remaining (method, status) pairs (same code path as a listed representative), URL resolution
//@ clause: 307/308: method preserved, not followed at all for POST/PUT/PATCH/DELETE; other 3xx: HEAD stays HEAD, GET stays GET, everything else becomes GET; the redirect state reports its status
#[kani::proof]
#[kani::stub(crate::client::amended::AmendedRequest::new_uri_from_location, p_new_uri_from_location)]
fn c15_redirect_get_302() {
    c15_redirect_case(0, 302, false);
}

// =====================================================================================
// C01 — read-only queries do not disturb a flow (by reference, all states of the invariant)
// =====================================================================================

//@ props: C01
//@ tier: quick
//@ unwind: 6
//@ timeout: 900
//@ encodes: Flow::<SendBody>::can_proceed / is_chunked / calculate_max_input, Flow::<RecvBody>::can_proceed / body_mode / is_on_chunk_boundary, Flow::<RecvResponse>::can_proceed, body::calculate_max_input
//@ vars: writer: chunked(finished any) | sized(any u64, finished per invariant); reader: NoBody | LengthDelimited(any) | Chunked(any decoder state) | CloseDelimited; output length argument: any value < 2^20
//@ bounds: calculate_max_input argument < 2^20 here (its arithmetic is decided for all 2^64 values by C18/E2)
//@ outside: -
//@ clause: the read-only queries (readiness, chunked?, maximum input, boundary?, body mode) leave writer, reader and flags exactly as they were (calculate_max_input and is_chunked take &mut self, so this is not given by the types)
#[kani::proof]
fn c01_queries_are_pure() {
    let writer = if kani::any() { bh::mk_writer_chunked(kani::any()) } else { bh::any_writer_sized() };
    let holder = CallHolder::WithBody(ch::mk_call_in(2, 0, writer, None, true));
    let mut flow: Flow<(), SendBody> = mk_flow(mk_inner(holder, &no_reasons(), true, false, None, None));
    let n: usize = kani::any();
    kani::assume(n < (1 << 20));
    let r1 = flow.can_proceed();
    let c1 = flow.is_chunked();
    let m1 = flow.calculate_max_input(n);
    let r2 = flow.can_proceed();
    let c2 = flow.is_chunked();
    let m2 = flow.calculate_max_input(n);
    assert!(r1 == r2 && c1 == c2 && m1 == m2, "C01/queries-are-repeatable");
    assert!(bh::writer_same(&ch::writer_of(flow.inner.call.as_with_body()), &writer), "C01/queries-leave-writer-untouched");
    if !c1 {
        assert!(m1 == n, "C18/sized-advertises-n");
    } else {
        assert!(m1 <= n, "C18/advertised-never-exceeds-n");
    }
    core::mem::forget(flow);
    let k = any_idx(4);
    let rd = match k {
        0 => BodyReader::NoBody,
        1 => BodyReader::LengthDelimited(kani::any()),
        2 => BodyReader::Chunked(crate::chunk::verif_h::any_dechunker()),
        _ => BodyReader::CloseDelimited,
    };
    let holder = CallHolder::RecvBody(ch::mk_call_in(4, 0, bh::mk_writer_none(), Some(rd), true));
    let flow: Flow<(), RecvBody> = mk_flow(mk_inner(holder, &no_reasons(), false, false, Some(StatusCode::OK), None));
    let a1 = (flow.can_proceed(), flow.is_on_chunk_boundary());
    let _ = flow.body_mode();
    let a2 = (flow.can_proceed(), flow.is_on_chunk_boundary());
    assert!(a1 == a2, "C01/queries-are-repeatable");
    assert!(ch::reader_of(flow.inner.call.as_recv_body()) == Some(rd), "C01/queries-leave-reader-untouched");
    kani::cover!(c1, "chunked");
    kani::cover!(k == 2, "chunked-reader");
    core::mem::forget(flow);
}

// =====================================================================================
// C02 — Flow<SendRequest>::write once the head is complete
// =====================================================================================

//@ props: C02 C03 C01
//@ tier: quick
//@ unwind: 6
//@ unwindset: c02_flow_write_after_head=10 write_all=3
//@ timeout: 900
//@ encodes: Flow::<SendRequest>::write (dispatch for body-carrying calls), Call::<WithBody>::write, Call::<WithoutBody>::write, BodyWriter::write
//@ vars: holder WithBody (writer chunked | sized(any u64), not finished) or WithoutBody, head complete (phase SendBody); output buffer 8 symbolic bytes, out <= 8
//@ bounds: out <= 8 bytes
//@ outside: -
//@ clause: once the head is complete, further calls of the head-writing function emit nothing and change nothing - in particular they neither emit the chunked terminator nor finish the body
#[kani::proof]
fn c02_flow_write_after_head() {
    let with_body: bool = kani::any();
    let chunked: bool = kani::any();
    let writer = if !with_body {
        bh::mk_writer_none()
    } else if chunked {
        bh::mk_writer_chunked(false)
    } else {
        bh::mk_writer_sized(kani::any(), false)
    };
    let holder = if with_body {
        CallHolder::WithBody(ch::mk_call_in(2, 0, writer, None, true))
    } else {
        CallHolder::WithoutBody(ch::mk_call_in(2, 0, writer, None, true))
    };
    let mut flow: Flow<(), SendRequest> = mk_flow(mk_inner(holder, &no_reasons(), with_body, kani::any(), None, None));
    let out0: [u8; 8] = kani::any();
    let ol = any_le(8);
    let mut out = out0;
    let r = flow.write(&mut out[..ol]);
    assert!(matches!(r, Ok(0)), "C02/complete-head-emits-nothing-more");
    let after = match &flow.inner.call {
        CallHolder::WithBody(c) => ch::writer_of(c),
        CallHolder::WithoutBody(c) => ch::writer_of(c),
        _ => bh::mk_writer_none(),
    };
    assert!(bh::writer_same(&after, &writer), "C02/complete-head-write-changes-nothing");
    assert!(flow.can_proceed(), "C02/head-stays-complete");
    let mut i = 0;
    while i < 8 {
        assert!(out[i] == out0[i], "C02/complete-head-emits-nothing-more");
        i += 1;
    }
    kani::cover!(with_body && chunked && ol >= 5, "chunked-with-room-for-a-terminator");
    kani::cover!(with_body && !chunked, "sized");
    kani::cover!(!with_body, "without-body");
    core::mem::forget(r);
    core::mem::forget(flow);
}

//@ props: C09 C11
//@ tier: off
//@ unwind: 6
//@ unwindset: memcmp=14 from_static=14 extend_with=10 FnvHasher=10 3all5check=18 eq_ignore_ascii_case=18 from_fn=6
//@ timeout: 3000
//@ mem: 32
//@ encodes: Flow::<Prepare>::new, Flow::<Prepare>::send_body_despite_method, CallHolder::convert_to_send_body, HeaderIterExt::has_expect_100
//@ vars: concrete: GET http/1.1 request carrying Expect: 100-continue
//@ bounds: this request
//@ outside: other body-less methods (same code path)
//@ clause: a body-less method with Expect: 100-continue for which the caller asks to send a body despite the method awaits 100 after the head (body due and await flag set once the body is due)
#[kani::proof]
fn c09_get_expect_despite_method_awaits_100() {
    let mut req = ah::mk_request(0, 2);
    req.headers_mut().append(http::header::EXPECT, HeaderValue::from_static("100-continue"));
    match Flow::new(req) {
        Err(e) => {
            core::mem::forget(e);
            assert!(false, "C09/flow-construction-succeeds");
        }
        Ok(mut f) => {
            f.send_body_despite_method();
            assert!(f.inner.should_send_body && holder_kind(&f.inner.call) == 1, "C09/despite-method-makes-a-body-due");
            assert!(f.inner.await_100_continue, "C09/await100-follows-the-head-iff-body-due-and-expect");
            kani::cover!(true, "reached");
            core::mem::forget(f);
        }
    }
}


// ---------------------------------------------------------------- late 100 / header-less final head in RecvResponse

/// sc: 0 late 100 while still expecting one | 1 a 100 when none is expected any more | 2 header-less 200
fn c11_recv_response_case(sc: usize) {
    let code: usize = kani::any();
    kani::assume(code == if sc == 2 { 200 } else { 100 });
    let (buf, head_len) = c11_bytes(1, code, false, false);
    let extra = any_le(4);
    let l = head_len + extra;
    ph::script(1, 2, code, head_len, 0, 0);
    let reasons = any_reasons(false, false);
    let n0 = reasons_count(&reasons);
    let holder = CallHolder::RecvResponse(ch::mk_call_in(3, 0, bh::mk_writer_none(), None, true));
    let mut flow: Flow<(), RecvResponse> = mk_flow(mk_inner(holder, &reasons, false, sc == 0, None, None));
    let r = flow.try_response(&buf[..l]);
    match r {
        Err(e) => {
            core::mem::forget(e);
            assert!(false, "C11/well-formed-head-is-not-an-error");
        }
        Ok((n, resp)) => {
            assert!(n == head_len, "C05/consumes-exactly-the-head");
            if sc == 0 {
                assert!(resp.is_none(), "C11/late-100-is-skipped");
                assert!(!flow.inner.await_100_continue, "C11/late-100-skipped-exactly-once");
                assert!(!flow.can_proceed() && flow.inner.status.is_none(), "C11/late-100-leaves-the-flow-waiting-for-the-real-response");
            } else {
                assert!(resp.is_some(), "C11/second-100-or-final-head-is-returned");
                assert!(flow.inner.status.map(|s| s.as_u16() as usize) == Some(code), "C09/status-recorded");
                if sc == 2 {
                    assert!(flow.can_proceed(), "C09/ready-iff-head-parsed");
                }
            }
            assert!(flow.inner.close_reason.len() == n0, "C10/no-reason-without-condition");
            core::mem::forget(resp);
        }
    }
    kani::cover!(true, "cell-reached");
    core::mem::forget(flow);
}

//@ props: C11 C10 C09
//@ tier: quick
//@ unwind: 6
//@ unwindset: memcmp=12 c11_bytes=18 from_bytes=20 parse_hdr=20 FnvHasher=20
//@ timeout: 1500
//@ mem: 24
//@ encodes: Flow::<RecvResponse>::try_response, Call::<RecvResponse>::try_response (100 handling, body-mode decision on a header-less head), HeaderMap lookups on an empty map
//@ stubs_note: parser::try_parse_response::<128> replaced as a whole by the script environment (complete header-less head); native replay runs the real glue and httparse on the scenario's bytes
//@ vars: concrete per harness: late 100 with the await flag still set | 100 with the flag cleared | header-less 200. Symbolic: trailing bytes 0..=4, recorded close reasons
//@ bounds: header-less heads only (heads with fields need HeaderMap insertion: out of reach)
//@ outside: heads with fields (Location, Connection: close, framing headers)
//@ clause: a 100 that arrives after the body was sent is consumed exactly and skipped exactly once (the flag is cleared, no response is returned, the flow keeps waiting); a further 100 or a final head is returned as the response
#[kani::proof]
#[kani::stub(crate::parser::try_parse_response, crate::parser::verif_h::p_try_parse_response)]
fn c11_recv_response_late_100_skipped() {
    c11_recv_response_case(0);
}

//@ like: c11_recv_response_late_100_skipped
#[kani::proof]
#[kani::stub(crate::parser::try_parse_response, crate::parser::verif_h::p_try_parse_response)]
fn c11_recv_response_second_100_returned() {
    c11_recv_response_case(1);
}

//@ like: c11_recv_response_late_100_skipped
#[kani::proof]
#[kani::stub(crate::parser::try_parse_response, crate::parser::verif_h::p_try_parse_response)]
fn c11_recv_response_headerless_200() {
    c11_recv_response_case(2);
}

// ---------------------------------------------------------------- response heads with ONE field (scripted glue)

/// Scenario bytes with one field from the parser_h menu: 0 location: /x | 1 connection: close | 2 content-length: 5
fn c10_bytes_one_field(code: usize, hdr: usize) -> ([u8; 48], usize) {
    let mut b = [b'N'; 48];
    let head = b"HTTP/1.1 000 X\r\n";
    let mut i = 0;
    while i < 16 {
        b[i] = head[i];
        i += 1;
    }
    b[9] = b'0' + (code / 100) as u8;
    b[10] = b'0' + ((code / 10) % 10) as u8;
    b[11] = b'0' + (code % 10) as u8;
    let f: &[u8] = match hdr {
        0 => b"location: /x\r\n\r\n",
        1 => b"connection: close\r\n\r\n",
        _ => b"content-length: 5\r\n\r\n",
    };
    let mut j = 0;
    while j < 24 {
        if j < f.len() {
            b[16 + j] = f[j];
        }
        j += 1;
    }
    (b, 16 + f.len())
}

fn c10_recv_response_field_case(code_fixed: usize, hdr: usize) {
    let code: usize = kani::any();
    kani::assume(code == code_fixed);
    let (buf, head_len) = c10_bytes_one_field(code, hdr);
    let extra = any_le(4);
    let l = head_len + extra;
    ph::script(1, 2, code, head_len, 1, hdr);
    let reasons = any_reasons(true, false);
    let n0 = reasons_count(&reasons);
    let holder = CallHolder::RecvResponse(ch::mk_call_in(3, 0, bh::mk_writer_none(), None, true));
    let mut flow: Flow<(), RecvResponse> = mk_flow(mk_inner(holder, &reasons, false, false, None, None));
    let r = flow.try_response(&buf[..l]);
    match r {
        Err(e) => {
            core::mem::forget(e);
            assert!(false, "C05/well-formed-head-is-not-an-error");
        }
        Ok((n, resp)) => {
            assert!(n == head_len, "C05/consumes-exactly-the-head");
            assert!(resp.is_some(), "C05/complete-head-yields-a-response");
            assert!(flow.can_proceed(), "C09/ready-iff-head-parsed");
            assert!(flow.inner.status.map(|s| s.as_u16() as usize) == Some(code), "C09/status-recorded");
            let server_close = hdr == 1;
            assert!(flow.inner.close_reason.len() == n0 + server_close as usize, "C10/server-connection-close-recorded-iff-header-says-close");
            if server_close {
                assert!(flow.inner.close_reason[n0] == CloseReason::ServerConnectionClose, "C10/server-connection-close-reason-kind");
            }
            assert!(flow.inner.location.is_some() == (hdr == 0), "C14/location-recorded-iff-present");
            let mode = flow.inner.call.body_mode();
            if hdr == 2 {
                assert!(matches!(mode, BodyMode::LengthDelimited(5)), "C06/exactly-content-length");
            } else if code >= 300 && code <= 399 {
                assert!(matches!(mode, BodyMode::NoBody), "C06/redirect-without-framing-header-has-no-body");
            } else {
                assert!(matches!(mode, BodyMode::CloseDelimited), "C06/otherwise-until-close");
            }
            core::mem::forget(resp);
        }
    }
    kani::cover!(true, "cell-reached");
    core::mem::forget(flow);
}

//@ props: C10 C06 C09
//@ tier: off
//@ unwind: 6
//@ unwindset: memcmp=20 c10_bytes_one_field=26 from_bytes=20 parse_hdr=20 FnvHasher=20 extend_with=10 from_static=8 from_maybe_shared=20 to_str=8 3all5check=18 eq_ignore_ascii_case=18 from_ascii_bytes_radix=4 compare_lowercase_ascii=9
//@ timeout: 2400
//@ mem: 32
//@ encodes: Flow::<RecvResponse>::try_response (status / last Location / ServerConnectionClose), Call::<RecvResponse>::try_response (header lookup closure, BodyReader::for_response), HeaderIterExt::has, HeaderMap get / get_all / iter on a one-entry map
//@ stubs_note: parser::try_parse_response::<128> replaced as a whole by the script environment (complete head with one field from a menu); native replay runs the real glue and httparse on the scenario's bytes
//@ vars: concrete per harness: (status, field) in {(200, connection: close), (302, location: /x), (200, content-length: 5)}. Symbolic: trailing bytes 0..=4, recorded earlier close reasons
//@ bounds: heads with exactly one field
//@ outside: several fields, other values (e.g. Connection: keep-alive, token lists), repeated Location
//@ clause: the response head records its status; ServerConnectionClose is recorded iff the response carries Connection: close; Location is recorded iff present; the body mode follows the head's framing header
#[kani::proof]
#[kani::stub(crate::parser::try_parse_response, crate::parser::verif_h::p_try_parse_response)]
fn c10_recv_response_connection_close() {
    c10_recv_response_field_case(200, 1);
}

//@ like: c10_recv_response_connection_close
#[kani::proof]
#[kani::stub(crate::parser::try_parse_response, crate::parser::verif_h::p_try_parse_response)]
fn c10_recv_response_location_302() {
    c10_recv_response_field_case(302, 0);
}

//@ like: c10_recv_response_connection_close
#[kani::proof]
#[kani::stub(crate::parser::try_parse_response, crate::parser::verif_h::p_try_parse_response)]
fn c10_recv_response_content_length_5() {
    c10_recv_response_field_case(200, 2);
}

// =====================================================================================
// C05 — strict prefixes of a response head that end before its first field (real parser glue)
// =====================================================================================

/// sc: 0 empty input | 1 inside the version token ("HTTP/1.") | 2 version token only | 3 status line of a final
/// response without the empty line | 4 status line of a 3xx without the empty line (no Location yet)
fn c05_prefix_case(sc: usize) {
    let code: usize = kani::any();
    match sc {
        3 => kani::assume((code >= 200 && code <= 299) || (code >= 400 && code <= 999)),
        4 => kani::assume(code >= 300 && code <= 399),
        _ => kani::assume(code == 200),
    }
    let (buf, _head_len) = c11_bytes(1, code, false, false);
    let l = match sc {
        0 => 0,
        1 => 7,
        2 => 8,
        _ => 16,
    };
    match sc {
        0 | 1 => ph::script(0, 0, 0, 0, 0, 0),
        2 => ph::script(0, 2, 0, 0, 0, 0),
        _ => ph::script(0, 2, code, 0, 0, 0),
    }
    let reasons = any_reasons(true, false);
    let n0 = reasons_count(&reasons);
    let holder = CallHolder::RecvResponse(ch::mk_call_in(3, 0, bh::mk_writer_none(), None, true));
    let mut flow: Flow<(), RecvResponse> = mk_flow(mk_inner(holder, &reasons, false, kani::any(), None, None));
    let r = flow.try_response(&buf[..l]);
    match r {
        Err(e) => {
            core::mem::forget(e);
            assert!(false, "C05/strict-prefix-is-never-an-error");
        }
        Ok((n, resp)) => {
            assert!(n == 0, "C05/strict-prefix-consumes-nothing");
            assert!(resp.is_none(), "C05/strict-prefix-yields-no-response");
            core::mem::forget(resp);
        }
    }
    assert!(!flow.can_proceed() && flow.inner.status.is_none(), "C05/strict-prefix-leaves-the-flow-waiting");
    assert!(flow.inner.close_reason.len() == n0, "C10/no-reason-without-condition");
    kani::cover!(true, "cell-reached");
    core::mem::forget(flow);
}

//@ props: C12 C01
//@ tier: off
//@ unwind: 6
//@ unwindset: memcmp=12 c11_bytes=18 from_bytes=20 parse_hdr=20 FnvHasher=20
//@ timeout: 1500
//@ mem: 24
//@ encodes: Flow::<RecvResponse>::try_response, Call::<RecvResponse>::try_response (complete parse, partial-parse fallback), parser::try_parse_response::<128>, parser::try_parse_partial_response::<128>
//@ stubs_note: httparse::Response::parse replaced by the script environment (what httparse reports for the scenario's bytes: Partial with nothing / version / version+code); hoot's glue runs for real; native replay runs the real httparse on those bytes
//@ vars: concrete per harness: where the prefix ends (empty | inside the version token | after the version token | after the status line of a final status | after the status line of a 3xx). Symbolic: the status within its class, recorded close reasons, await flag
//@ bounds: prefixes that end before the first header field
//@ outside: prefixes that contain complete header fields (in particular a 3xx cut after its Location line, which the partial-parse fallback deliberately accepts), complete heads (building a Response with fields is out of reach)
//@ clause: offering a strict prefix of a head yields need-more-data: zero bytes consumed, no response, never an error, the flow keeps waiting
#[kani::proof]
#[kani::stub(httparse::Response::parse, crate::parser::verif_h::hs_partial_nothing)]
fn c05_prefix_empty() {
    c05_prefix_case(0);
}

//@ like: c05_prefix_empty
#[kani::proof]
#[kani::stub(httparse::Response::parse, crate::parser::verif_h::hs_partial_nothing)]
fn c05_prefix_inside_version_token() {
    c05_prefix_case(1);
}

//@ like: c05_prefix_empty
//@ tier: quick
#[kani::proof]
#[kani::stub(httparse::Response::parse, crate::parser::verif_h::hs_partial_version)]
fn c05_prefix_version_token_only() {
    c05_prefix_case(2);
}

//@ like: c05_prefix_empty
#[kani::proof]
#[kani::stub(httparse::Response::parse, crate::parser::verif_h::hs_partial_status)]
fn c05_prefix_status_line_final() {
    c05_prefix_case(3);
}

//@ like: c05_prefix_empty
#[kani::proof]
#[kani::stub(httparse::Response::parse, crate::parser::verif_h::hs_partial_status)]
fn c05_prefix_status_line_redirect() {
    c05_prefix_case(4);
}

// =====================================================================================
// C16 — a header added before send_body_despite_method() survives the conversion
// =====================================================================================

//@ props: C16 C09
//@ tier: quick
//@ unwind: 6
//@ unwindset: memcmp=12 from_static=20 to_str=12
//@ timeout: 900
//@ mem: 24
//@ encodes: AmendedRequest::set_header, CallHolder::convert_to_send_body, Call::<WithoutBody>::into_send_body, AmendedRequest::headers / headers_len
//@ vars: concrete: GET http/1.1 without original headers; the caller adds cookie: a in the prepare state, then asks to send a body despite the method
//@ bounds: one caller-added header
//@ outside: several additions, redirected flows (URI override, suppression list)
//@ clause: a header added in the prepare state is still effective after the call was converted to send a body despite the method
#[kani::proof]
fn c16_added_header_survives_despite_method() {
    let mut call: Call<crate::client::call::state::WithoutBody, ()> =
        ch::mk_call_req(ah::mk_request(0, 2), 0, 0, bh::mk_writer_none(), None, false);
    call.amended_mut().set_header(http::header::COOKIE, HeaderValue::from_static("a")).unwrap();
    let mut holder = CallHolder::WithoutBody(call);
    holder.convert_to_send_body();
    assert!(holder_kind(&holder) == 1, "C09/despite-method-holder-is-with-body");
    // (the request analysis is not run here: with a caller-added header its five header passes do not finish)
    let ar = holder.request();
    assert!(ar.headers_len() == 1, "C16/caller-added-header-survives-despite-method-conversion");
    let first_is_cookie = match ar.headers().next() {
        Some((k, _)) => *k == http::header::COOKIE,
        None => false,
    };
    assert!(first_is_cookie, "C16/caller-added-headers-first-in-order");
    kani::cover!(true, "reached");
    core::mem::forget(holder);
}

// ---------------------------------------------------------------- C15: redirects that are NOT followed / cannot be followed

fn c15_not_followed_case(mi: usize, code_fixed: u16) {
    let code: u16 = kani::any();
    kani::assume(code == code_fixed);
    let status = StatusCode::from_u16(code).unwrap();
    let call: Call<crate::client::call::state::RecvBody, ()> =
        ch::mk_call_req(ah::mk_request(mi, 2), 4, 0, bh::mk_writer_none(), Some(BodyReader::NoBody), true);
    let holder = CallHolder::RecvBody(call);
    let mut flow: Flow<(), Redirect> =
        mk_flow(mk_inner(holder, &no_reasons(), false, false, Some(status), Some(HeaderValue::from_static("/y"))));
    let policy = if kani::any() { RedirectAuthHeaders::SameHost } else { RedirectAuthHeaders::Never };
    let r = flow.as_new_flow(policy);
    assert!(matches!(r, Ok(None)), "C15/307-308-not-followed-for-body-methods-and-delete");
    assert!(flow.status() == status, "C15/redirect-reports-status");
    // the redirect state stays usable: it can still proceed to cleanup
    assert!(holder_kind(&flow.inner.call) == 3, "C09/not-followed-redirect-keeps-its-call");
    kani::cover!(true, "cell-reached");
    core::mem::forget(r);
    core::mem::forget(flow);
}

//@ props: C15 C09
//@ tier: quick
//@ unwind: 6
//@ unwindset: memcmp=16 from_static=8 to_str=6
//@ timeout: 1200
//@ mem: 24
//@ encodes: Flow::<Redirect>::as_new_flow (paths that return before a new flow is built), StatusExt::is_redirect_retaining_status, MethodExt::need_request_body, Flow::<Redirect>::status
//@ stubs_note: AmendedRequest::new_uri_from_location replaced by a stub returning the URI "/" (url crate out of reach; C14 not claimed)
//@ vars: concrete per harness: (method, status) in {POST, PUT, PATCH, DELETE} x {307, 308}; symbolic: auth policy
//@ bounds: the eight (method, status) pairs for which the table says "do not follow"
//@ outside: followed redirects (method rewriting to GET / HEAD): building the new flow does not finish under CBMC (8.8)
//@ clause: for 307 and 308 the redirect is not followed at all when the method carries a request body (POST, PUT, PATCH) or is DELETE; the redirect state reports its status and stays usable
#[kani::proof]
#[kani::stub(crate::client::amended::AmendedRequest::new_uri_from_location, p_new_uri_from_location)]
fn c15_not_followed_post_307() {
    c15_not_followed_case(2, 307);
}

//@ like: c15_not_followed_post_307
#[kani::proof]
#[kani::stub(crate::client::amended::AmendedRequest::new_uri_from_location, p_new_uri_from_location)]
fn c15_not_followed_put_308() {
    c15_not_followed_case(3, 308);
}

//@ like: c15_not_followed_post_307
#[kani::proof]
#[kani::stub(crate::client::amended::AmendedRequest::new_uri_from_location, p_new_uri_from_location)]
fn c15_not_followed_patch_307() {
    c15_not_followed_case(8, 307);
}

//@ like: c15_not_followed_post_307
#[kani::proof]
#[kani::stub(crate::client::amended::AmendedRequest::new_uri_from_location, p_new_uri_from_location)]
fn c15_not_followed_delete_308() {
    c15_not_followed_case(4, 308);
}

//@ like: c15_not_followed_post_307
#[kani::proof]
#[kani::stub(crate::client::amended::AmendedRequest::new_uri_from_location, p_new_uri_from_location)]
fn c15_not_followed_delete_307() {
    c15_not_followed_case(4, 307);
}
